//! The C API of tsrun, reached from Rust through `extern "C"` declarations against the rlib
//! (no C compiler involved, so Miri can interpret whole histories), plus a minimal C-side host
//! used by the driver-equivalence check (C19) and the C-API history check (C17).

#![allow(dead_code)]

use std::cell::RefCell;
use std::ffi::{CStr, CString, c_char, c_void};
use std::ptr;
pub use tsrun::ffi::{
    TsRunConsoleLevel, TsRunContext, TsRunGcStats, TsRunImportRequest, TsRunOrder, TsRunOrderResponse,
    TsRunResult, TsRunStepResult, TsRunStepStatus, TsRunType, TsRunValue, TsRunValueResult,
};

#[repr(C)]
pub struct TsRunInternalModule {
    _private: [u8; 0],
}

pub type TsRunNativeFn = extern "C" fn(
    ctx: *mut TsRunContext,
    this_arg: *mut TsRunValue,
    args: *mut *mut TsRunValue,
    argc: usize,
    userdata: *mut c_void,
    error_out: *mut *const c_char,
) -> *mut TsRunValue;

pub type TsRunConsoleFn =
    extern "C" fn(level: TsRunConsoleLevel, message: *const c_char, message_len: usize, userdata: *mut c_void);

unsafe extern "C" {
    pub fn tsrun_set_console(ctx: *mut TsRunContext, func: Option<TsRunConsoleFn>, userdata: *mut c_void) -> TsRunResult;
    pub fn tsrun_new() -> *mut TsRunContext;
    pub fn tsrun_free(ctx: *mut TsRunContext);
    pub fn tsrun_prepare(ctx: *mut TsRunContext, code: *const c_char, path: *const c_char) -> TsRunResult;
    pub fn tsrun_step(out: *mut TsRunStepResult, ctx: *mut TsRunContext);
    pub fn tsrun_run(out: *mut TsRunStepResult, ctx: *mut TsRunContext);
    pub fn tsrun_step_result_free(result: *mut TsRunStepResult);
    pub fn tsrun_version() -> *const c_char;
    pub fn tsrun_free_string(s: *mut c_char);
    pub fn tsrun_free_strings(strings: *mut *mut c_char, count: usize);
    pub fn tsrun_provide_module(ctx: *mut TsRunContext, path: *const c_char, code: *const c_char) -> TsRunResult;
    pub fn tsrun_get_export(ctx: *mut TsRunContext, name: *const c_char) -> TsRunValueResult;
    pub fn tsrun_get_export_names(ctx: *mut TsRunContext, count_out: *mut usize) -> *mut *mut c_char;
    pub fn tsrun_native_function(ctx: *mut TsRunContext, name: *const c_char, func: TsRunNativeFn, arity: usize, userdata: *mut c_void) -> TsRunValueResult;
    pub fn tsrun_internal_module_new(specifier: *const c_char) -> *mut TsRunInternalModule;
    pub fn tsrun_internal_module_add_function(module: *mut TsRunInternalModule, name: *const c_char, func: TsRunNativeFn, arity: usize, userdata: *mut c_void);
    pub fn tsrun_internal_module_add_value(module: *mut TsRunInternalModule, name: *const c_char, value: *mut TsRunValue);
    pub fn tsrun_register_internal_module(ctx: *mut TsRunContext, module: *mut TsRunInternalModule) -> TsRunResult;
    pub fn tsrun_fulfill_orders(ctx: *mut TsRunContext, responses: *const TsRunOrderResponse, count: usize) -> TsRunResult;
    pub fn tsrun_create_pending_order(ctx: *mut TsRunContext, payload: *mut TsRunValue, order_id_out: *mut u64) -> TsRunValueResult;
    pub fn tsrun_create_order_promise(ctx: *mut TsRunContext, order_id: u64) -> TsRunValueResult;
    pub fn tsrun_resolve_promise(ctx: *mut TsRunContext, promise: *mut TsRunValue, value: *mut TsRunValue) -> TsRunResult;
    pub fn tsrun_reject_promise(ctx: *mut TsRunContext, promise: *mut TsRunValue, error: *const c_char) -> TsRunResult;
    pub fn tsrun_typeof(val: *const TsRunValue) -> TsRunType;
    pub fn tsrun_is_undefined(val: *const TsRunValue) -> bool;
    pub fn tsrun_is_null(val: *const TsRunValue) -> bool;
    pub fn tsrun_is_nullish(val: *const TsRunValue) -> bool;
    pub fn tsrun_is_boolean(val: *const TsRunValue) -> bool;
    pub fn tsrun_is_number(val: *const TsRunValue) -> bool;
    pub fn tsrun_is_string(val: *const TsRunValue) -> bool;
    pub fn tsrun_is_object(val: *const TsRunValue) -> bool;
    pub fn tsrun_is_array(val: *const TsRunValue) -> bool;
    pub fn tsrun_is_function(val: *const TsRunValue) -> bool;
    pub fn tsrun_get_bool(val: *const TsRunValue) -> bool;
    pub fn tsrun_get_number(val: *const TsRunValue) -> f64;
    pub fn tsrun_get_string(val: *const TsRunValue) -> *const c_char;
    pub fn tsrun_get_string_len(val: *const TsRunValue) -> usize;
    pub fn tsrun_undefined(ctx: *mut TsRunContext) -> *mut TsRunValue;
    pub fn tsrun_null(ctx: *mut TsRunContext) -> *mut TsRunValue;
    pub fn tsrun_boolean(ctx: *mut TsRunContext, b: bool) -> *mut TsRunValue;
    pub fn tsrun_number(ctx: *mut TsRunContext, n: f64) -> *mut TsRunValue;
    pub fn tsrun_string(ctx: *mut TsRunContext, s: *const c_char) -> *mut TsRunValue;
    pub fn tsrun_string_len(ctx: *mut TsRunContext, s: *const c_char, len: usize) -> *mut TsRunValue;
    pub fn tsrun_value_free(val: *mut TsRunValue);
    pub fn tsrun_value_dup(ctx: *mut TsRunContext, val: *const TsRunValue) -> *mut TsRunValue;
    pub fn tsrun_get(ctx: *mut TsRunContext, obj: *mut TsRunValue, key: *const c_char) -> TsRunValueResult;
    pub fn tsrun_set(ctx: *mut TsRunContext, obj: *mut TsRunValue, key: *const c_char, val: *mut TsRunValue) -> TsRunResult;
    pub fn tsrun_has(ctx: *mut TsRunContext, obj: *mut TsRunValue, key: *const c_char) -> bool;
    pub fn tsrun_delete(ctx: *mut TsRunContext, obj: *mut TsRunValue, key: *const c_char) -> TsRunResult;
    pub fn tsrun_keys(ctx: *mut TsRunContext, obj: *mut TsRunValue, count_out: *mut usize) -> *mut *mut c_char;
    pub fn tsrun_array_len(arr: *const TsRunValue) -> usize;
    pub fn tsrun_array_get(ctx: *mut TsRunContext, arr: *mut TsRunValue, index: usize) -> TsRunValueResult;
    pub fn tsrun_array_set(ctx: *mut TsRunContext, arr: *mut TsRunValue, index: usize, val: *mut TsRunValue) -> TsRunResult;
    pub fn tsrun_array_push(ctx: *mut TsRunContext, arr: *mut TsRunValue, val: *mut TsRunValue) -> TsRunResult;
    pub fn tsrun_json_parse(ctx: *mut TsRunContext, json: *const c_char) -> TsRunValueResult;
    pub fn tsrun_json_stringify(ctx: *mut TsRunContext, val: *mut TsRunValue) -> *mut c_char;
    pub fn tsrun_object_new(ctx: *mut TsRunContext) -> TsRunValueResult;
    pub fn tsrun_array_new(ctx: *mut TsRunContext) -> TsRunValueResult;
    pub fn tsrun_call(ctx: *mut TsRunContext, func: *mut TsRunValue, this_arg: *mut TsRunValue, args: *mut *mut TsRunValue, argc: usize) -> TsRunValueResult;
    pub fn tsrun_call_method(ctx: *mut TsRunContext, obj: *mut TsRunValue, method: *const c_char, args: *mut *mut TsRunValue, argc: usize) -> TsRunValueResult;
    pub fn tsrun_get_global(ctx: *mut TsRunContext, name: *const c_char) -> TsRunValueResult;
    pub fn tsrun_set_global(ctx: *mut TsRunContext, name: *const c_char, val: *mut TsRunValue) -> TsRunResult;
    pub fn tsrun_gc_stats(ctx: *mut TsRunContext) -> TsRunGcStats;
}

pub fn cs(s: &str) -> CString {
    CString::new(s.replace('\0', " ")).unwrap_or_default()
}

/// Read a C string returned by the API; records whether it was valid NUL-terminated UTF-8.
pub unsafe fn read_cstr(p: *const c_char) -> Option<Result<String, String>> {
    if p.is_null() {
        return None;
    }
    let c = unsafe { CStr::from_ptr(p) };
    Some(match c.to_str() {
        Ok(s) => Ok(s.to_string()),
        Err(e) => Err(format!("invalid utf-8: {}", e)),
    })
}

thread_local! {
    static CONSOLE: RefCell<Vec<String>> = const { RefCell::new(Vec::new()) };
}

extern "C" fn console_cb(level: TsRunConsoleLevel, message: *const c_char, len: usize, _ud: *mut c_void) {
    let l = match level {
        TsRunConsoleLevel::Log => "log",
        TsRunConsoleLevel::Info => "info",
        TsRunConsoleLevel::Debug => "debug",
        TsRunConsoleLevel::Warn => "warn",
        TsRunConsoleLevel::Error => "error",
        TsRunConsoleLevel::Clear => "clear",
    };
    let msg = if message.is_null() || len == 0 {
        String::new()
    } else {
        let bytes = unsafe { std::slice::from_raw_parts(message as *const u8, len) };
        String::from_utf8_lossy(bytes).to_string()
    };
    CONSOLE.with(|c| {
        if l == "clear" {
            c.borrow_mut().push("clear".into());
        } else {
            c.borrow_mut().push(format!("{}:{}", l, msg));
        }
    });
}

/// `order(payload)` for C hosts: a native callback that creates a pending order.
extern "C" fn order_cb(
    ctx: *mut TsRunContext,
    _this: *mut TsRunValue,
    args: *mut *mut TsRunValue,
    argc: usize,
    _ud: *mut c_void,
    _err: *mut *const c_char,
) -> *mut TsRunValue {
    let payload = if argc > 0 && !args.is_null() { unsafe { *args } } else { ptr::null_mut() };
    let mut id: u64 = 0;
    let r = unsafe { tsrun_create_pending_order(ctx, payload, &mut id) };
    r.value
}

pub fn take_console() -> Vec<String> {
    CONSOLE.with(|c| std::mem::take(&mut *c.borrow_mut()))
}

/// A context with a console callback and a `tsrun:host` module whose `order` is a C callback.
pub fn new_context() -> *mut TsRunContext {
    unsafe {
        let ctx = tsrun_new();
        let _ = take_console();
        tsrun_set_console(ctx, Some(console_cb), ptr::null_mut());
        let m = tsrun_internal_module_new(cs("tsrun:host").as_ptr());
        tsrun_internal_module_add_function(m, cs("order").as_ptr(), order_cb, 1, ptr::null_mut());
        tsrun_register_internal_module(ctx, m);
        ctx
    }
}

pub unsafe fn show_handle(ctx: *mut TsRunContext, v: *mut TsRunValue) -> String {
    unsafe {
        if v.is_null() {
            return "<null-handle>".into();
        }
        if tsrun_is_undefined(v) {
            return "undefined".into();
        }
        if tsrun_is_string(v) {
            let p = tsrun_get_string(v);
            return match read_cstr(p) {
                Some(Ok(s)) => format!("s:{}", s),
                Some(Err(e)) => format!("<bad string: {}>", e),
                None => "<null string>".into(),
            };
        }
        let j = tsrun_json_stringify(ctx, v);
        if j.is_null() {
            return "unjsonable".into();
        }
        let s = read_cstr(j).and_then(|r| r.ok()).unwrap_or_default();
        tsrun_free_string(j);
        s
    }
}

// ───────────────────────────── C-side host (simplest policy) ─────────────────────────────

use crate::host::{Answer, Outcome, RunSpec};
use serde_json::Value;

struct CDeferred {
    promise: *mut TsRunValue,
    key: String,
    ok: bool,
    value: Value,
    err: String,
}

unsafe fn json_to_handle(ctx: *mut TsRunContext, v: &Value) -> *mut TsRunValue {
    unsafe {
        match v {
            Value::Null => tsrun_null(ctx),
            Value::Bool(b) => tsrun_boolean(ctx, *b),
            Value::Number(n) => tsrun_number(ctx, n.as_f64().unwrap_or(0.0)),
            Value::String(s) => tsrun_string(ctx, cs(s).as_ptr()),
            other => tsrun_json_parse(ctx, cs(&other.to_string()).as_ptr()).value,
        }
    }
}

/// Drive `spec` through the C API with the simplest host policy (answer every reported order in
/// order and in one batch, settle every deferred promise in order, provide every requested
/// module in order). `use_run`: tsrun_run (D4) instead of a tsrun_step loop (D5).
pub fn run_capi(spec: &RunSpec, use_run: bool) -> Outcome {
    let mut out = Outcome::default();
    unsafe {
        let ctx = new_context();
        let code = cs(&spec.source);
        let path = spec.path.as_ref().map(|p| cs(p));
        let r = tsrun_prepare(ctx, code.as_ptr(), path.as_ref().map(|p| p.as_ptr()).unwrap_or(ptr::null()));
        let mut unanswered: Vec<(u64, String)> = Vec::new();
        let mut deferred: Vec<CDeferred> = Vec::new();
        let mut settled: Vec<*mut TsRunValue> = Vec::new();
        let mut rounds = 0u64;
        let mut idle = 0u32;
        if !r.ok {
            let msg = read_cstr(r.error).and_then(|x| x.ok()).unwrap_or_default();
            out.traffic.push("err".into());
            out.result = format!("error:{}", msg.lines().next().unwrap_or(""));
        } else {
            'outer: loop {
                rounds += 1;
                if rounds > crate::host::MAX_ROUNDS * 4 {
                    out.result = "budget:rounds".into();
                    break;
                }
                let mut res = TsRunStepResult::default();
                if use_run {
                    tsrun_run(&mut res, ctx);
                } else {
                    loop {
                        tsrun_step(&mut res, ctx);
                        out.steps += 1;
                        if res.status != TsRunStepStatus::Continue {
                            break;
                        }
                        tsrun_step_result_free(&mut res);
                        if out.steps > 20_000_000 {
                            out.result = "budget:steps".into();
                            break 'outer;
                        }
                    }
                }
                match res.status {
                    TsRunStepStatus::Continue => {}
                    TsRunStepStatus::Complete => {
                        let s = show_handle(ctx, res.value);
                        if !res.value.is_null() {
                            tsrun_value_free(res.value);
                        }
                        out.traffic.push("complete".into());
                        out.result = format!("complete:{}", s);
                        tsrun_step_result_free(&mut res);
                        break;
                    }
                    TsRunStepStatus::Done => {
                        out.traffic.push("done".into());
                        out.result = "done".into();
                        tsrun_step_result_free(&mut res);
                        break;
                    }
                    TsRunStepStatus::Error => {
                        let msg = read_cstr(res.error).and_then(|x| x.ok()).unwrap_or_default();
                        out.traffic.push("err".into());
                        out.result = format!("error:{}", msg.lines().next().unwrap_or(""));
                        tsrun_step_result_free(&mut res);
                        break;
                    }
                    TsRunStepStatus::NeedImports => {
                        out.import_rounds += 1;
                        let mut t = String::from("need:");
                        let mut needed: Vec<String> = Vec::new();
                        for i in 0..res.import_count {
                            let q = &*res.imports.add(i);
                            let spec_s = read_cstr(q.specifier).and_then(|x| x.ok()).unwrap_or_default();
                            let rp = read_cstr(q.resolved_path).and_then(|x| x.ok()).unwrap_or_default();
                            let imp = read_cstr(q.importer).and_then(|x| x.ok()).unwrap_or_else(|| "-".into());
                            t.push_str(&format!("[{}|{}|{}]", spec_s, rp, imp));
                            needed.push(rp);
                        }
                        out.traffic.push(t);
                        tsrun_step_result_free(&mut res);
                        let mut any = false;
                        for rp in needed {
                            match spec.modules.get(&rp) {
                                Some(src) => {
                                    if spec.stub_then_real {
                                        let _ = tsrun_provide_module(ctx, cs(&rp).as_ptr(), cs(crate::host::STUB_MODULE).as_ptr());
                                    }
                                    let pr = tsrun_provide_module(ctx, cs(&rp).as_ptr(), cs(src).as_ptr());
                                    if !pr.ok {
                                        let msg = read_cstr(pr.error).and_then(|x| x.ok()).unwrap_or_default();
                                        out.result = format!("error:{}", msg.lines().next().unwrap_or(""));
                                        break 'outer;
                                    }
                                    any = true;
                                    out.traffic.push(format!("provide:{}", rp));
                                }
                                None => {
                                    out.result = format!("stuck:module-not-found:{}", rp);
                                    break 'outer;
                                }
                            }
                        }
                        if !any {
                            out.result = "stuck:no-module-provided".into();
                            break;
                        }
                    }
                    TsRunStepStatus::Suspended => {
                        out.suspensions += 1;
                        let mut t = String::from("susp:");
                        for i in 0..res.pending_count {
                            let o = &*res.pending_orders.add(i);
                            let shown = show_handle(ctx, o.payload);
                            let key = if tsrun_is_number(o.payload) {
                                format!("{}", tsrun_get_number(o.payload))
                            } else {
                                let kr = tsrun_get(ctx, o.payload, cs("k").as_ptr());
                                let k = if kr.value.is_null() {
                                    "?".to_string()
                                } else if tsrun_is_number(kr.value) {
                                    format!("{}", tsrun_get_number(kr.value))
                                } else if tsrun_is_string(kr.value) {
                                    read_cstr(tsrun_get_string(kr.value)).and_then(|x| x.ok()).unwrap_or_default()
                                } else {
                                    "?".to_string()
                                };
                                if !kr.value.is_null() {
                                    tsrun_value_free(kr.value);
                                }
                                k
                            };
                            t.push_str(&format!("[o{}={}]", o.id, shown));
                            unanswered.push((o.id, key));
                            out.orders_seen += 1;
                        }
                        for i in 0..res.cancelled_count {
                            t.push_str(&format!("[c{}]", *res.cancelled_orders.add(i)));
                        }
                        out.traffic.push(t);
                        tsrun_step_result_free(&mut res);
                        if unanswered.is_empty() && deferred.is_empty() {
                            idle += 1;
                            if idle > 3 {
                                out.result = "stuck:suspended-with-nothing-outstanding".into();
                                break;
                            }
                            continue;
                        }
                        idle = 0;
                        if !unanswered.is_empty() {
                            // answer everything, in order, in one batch
                            let mut keep_err: Vec<CString> = Vec::new();
                            let mut handles: Vec<*mut TsRunValue> = Vec::new();
                            let mut resp: Vec<TsRunOrderResponse> = Vec::new();
                            for (id, key) in unanswered.drain(..) {
                                let ans = spec.answers.get(&key).cloned().unwrap_or(Answer::Value(Value::Null));
                                out.traffic.push(format!("fulfil:o{}:{}", id, key));
                                match ans {
                                    Answer::Undefined => {
                                        let h = tsrun_undefined(ctx);
                                        handles.push(h);
                                        resp.push(TsRunOrderResponse { id, value: h, error: ptr::null() });
                                    }
                                    Answer::Value(v) => {
                                        let h = json_to_handle(ctx, &v);
                                        handles.push(h);
                                        resp.push(TsRunOrderResponse { id, value: h, error: ptr::null() });
                                    }
                                    Answer::Error(m) => {
                                        out.error_answers += 1;
                                        keep_err.push(cs(&m));
                                        let p = keep_err.last().map(|c| c.as_ptr()).unwrap_or(ptr::null());
                                        resp.push(TsRunOrderResponse { id, value: ptr::null_mut(), error: p });
                                    }
                                    Answer::DeferValue(v) => {
                                        let p = tsrun_create_order_promise(ctx, id).value;
                                        deferred.push(CDeferred { promise: p, key: key.clone(), ok: true, value: v, err: String::new() });
                                        resp.push(TsRunOrderResponse { id, value: p, error: ptr::null() });
                                    }
                                    Answer::DeferReject(m) => {
                                        let p = tsrun_create_order_promise(ctx, id).value;
                                        deferred.push(CDeferred { promise: p, key: key.clone(), ok: false, value: Value::Null, err: m });
                                        resp.push(TsRunOrderResponse { id, value: p, error: ptr::null() });
                                    }
                                }
                            }
                            tsrun_fulfill_orders(ctx, resp.as_ptr(), resp.len());
                            // a careful host keeps its handles until the run is over
                            settled.extend(handles);
                            drop(keep_err);
                        } else {
                            for d in deferred.drain(..) {
                                out.deferred_settled += 1;
                                out.traffic.push(format!("settle:{}:{}", d.key, d.ok));
                                if d.ok {
                                    let h = json_to_handle(ctx, &d.value);
                                    tsrun_resolve_promise(ctx, d.promise, h);
                                    settled.push(h);
                                } else {
                                    tsrun_reject_promise(ctx, d.promise, cs(&d.err).as_ptr());
                                }
                                settled.push(d.promise);
                            }
                        }
                    }
                }
            }
        }
        out.console = take_console();
        // exports
        let mut n: usize = 0;
        let names = tsrun_get_export_names(ctx, &mut n);
        let mut ex: Vec<(String, String)> = Vec::new();
        if !names.is_null() {
            for i in 0..n {
                let name = read_cstr(*names.add(i)).and_then(|x| x.ok()).unwrap_or_default();
                let v = tsrun_get_export(ctx, cs(&name).as_ptr());
                let shown = show_handle(ctx, v.value);
                if !v.value.is_null() {
                    tsrun_value_free(v.value);
                }
                ex.push((name, shown));
            }
            tsrun_free_strings(names, n);
        }
        ex.sort();
        out.exports = ex;
        for h in settled {
            if !h.is_null() {
                tsrun_value_free(h);
            }
        }
        for d in deferred {
            if !d.promise.is_null() {
                tsrun_value_free(d.promise);
            }
        }
        tsrun_free(ctx);
    }
    out
}
