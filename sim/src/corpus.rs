//! Corpus workload (DESIGN §4.2): the snippets the authors wrote in tests/interpreter/*.rs and the
//! programs under examples/, committed as /verif/corpus/*.json by tools/extract_corpus.py.
//! Workload only: their expected values are not used. Every oracle that runs them compares tsrun
//! with tsrun under another schedule / history / driver.

use crate::proggen::{HoleVariant, Node};
use crate::progscn::ProgCase;
use crate::rng::Rng;
use serde::Deserialize;
use std::collections::BTreeMap;
use std::sync::OnceLock;

#[derive(Clone, Debug, Deserialize)]
pub struct Entry {
    pub file: String,
    pub id: String,
    pub src: String,
    #[serde(default)]
    pub path: Option<String>,
    #[serde(default)]
    pub modules: BTreeMap<String, String>,
}

pub struct Corpus {
    pub snippets: Vec<Entry>,
    pub examples: Vec<Entry>,
}

static CORPUS: OnceLock<Corpus> = OnceLock::new();

fn load(name: &str) -> Vec<Entry> {
    let dir = std::env::var("VERIF_DIR").unwrap_or_else(|_| "/verif".into());
    let p = std::path::Path::new(&dir).join("corpus").join(name);
    // scratch VERIF_DIRs (sensitivity experiments) fall back to the committed corpus
    let s = std::fs::read_to_string(&p).or_else(|_| std::fs::read_to_string(std::path::Path::new("/verif/corpus").join(name)));
    match s {
        Ok(s) => match serde_json::from_str::<Vec<Entry>>(&s) {
            Ok(v) => v,
            Err(e) => {
                eprintln!("HARNESS-ERROR: cannot parse corpus {}: {}", p.display(), e);
                std::process::exit(2);
            }
        },
        Err(e) => {
            eprintln!("HARNESS-ERROR: cannot read corpus {}: {}", p.display(), e);
            std::process::exit(2);
        }
    }
}

pub fn corpus() -> &'static Corpus {
    CORPUS.get_or_init(|| Corpus { snippets: load("snippets.json"), examples: load("examples.json") })
}

/// Split a source text into top-level chunks (bracket depth back at zero at a line end, not inside
/// a template literal or block comment). Only the granularity of shrinking depends on this.
pub fn chunks(src: &str) -> Vec<String> {
    let mut out = Vec::new();
    let mut cur = String::new();
    let mut depth: i32 = 0;
    let mut in_tpl = false;
    let mut in_block_comment = false;
    for line in src.split('\n') {
        if !cur.is_empty() {
            cur.push('\n');
        }
        cur.push_str(line);
        let cs: Vec<char> = line.chars().collect();
        let mut i = 0;
        let mut in_str: Option<char> = None;
        while i < cs.len() {
            let c = cs[i];
            if in_block_comment {
                if c == '*' && cs.get(i + 1) == Some(&'/') {
                    in_block_comment = false;
                    i += 1;
                }
            } else if let Some(q) = in_str {
                if c == '\\' {
                    i += 1;
                } else if c == q {
                    in_str = None;
                }
            } else if in_tpl {
                if c == '\\' {
                    i += 1;
                } else if c == '`' {
                    in_tpl = false;
                }
            } else {
                match c {
                    '/' if cs.get(i + 1) == Some(&'/') => break,
                    '/' if cs.get(i + 1) == Some(&'*') => {
                        in_block_comment = true;
                        i += 1;
                    }
                    '"' | '\'' => in_str = Some(c),
                    '`' => in_tpl = true,
                    '(' | '[' | '{' => depth += 1,
                    ')' | ']' | '}' => depth -= 1,
                    _ => {}
                }
            }
            i += 1;
        }
        if depth <= 0 && !in_tpl && !in_block_comment && !cur.trim().is_empty() {
            out.push(std::mem::take(&mut cur));
            depth = 0;
        }
    }
    if !cur.trim().is_empty() {
        out.push(cur);
    }
    out
}

impl Entry {
    /// A ProgCase whose tree is three empty prelude leaves (the shrinker keeps them) plus one leaf
    /// per top-level chunk of the source.
    pub fn to_case(&self) -> ProgCase {
        let mut kids = vec![Node::leaf(""), Node::leaf(""), Node::leaf("")];
        for c in chunks(&self.src) {
            kids.push(Node::leaf(c));
        }
        ProgCase {
            tree: Node::block("", kids, ""),
            answers: Default::default(),
            variant: HoleVariant::Sync,
            module_path: self.path.clone(),
            modules: self.modules.clone(),
            tags: vec![format!("corpus:{}:{}", self.file, self.id)],
        }
    }
    /// Uses nothing the host or the global object owns: no clock / random / console counters, no
    /// writes to globalThis or builtin prototypes, no top-level `var`. Such snippets can serve as
    /// victims / repeated programs without a deliberate effect on later runs.
    pub fn self_contained(&self) -> bool {
        const BAD: [&str; 22] = [
            "Math.random", "Date.now", "new Date()", "Date()", "console.count", "console.time", "console.group", "globalThis", ".prototype.", ".prototype[",
            "prototype,", "var ", "Symbol.for", "eval(", "Function(", "setPrototypeOf(Array", "Object.freeze(Object", "Object.freeze(Array", "delete Array", "delete Object", "Array.prototype", "Object.prototype",
        ];
        !BAD.iter().any(|b| self.src.contains(b)) && !self.src.contains("import ") && !self.src.contains("export ")
    }
}

/// Pick an entry: mostly test snippets, sometimes a whole example program.
pub fn pick(rng: &mut Rng, examples_pm: u32) -> &'static Entry {
    let c = corpus();
    if !c.examples.is_empty() && (rng.below(1000) as u32) < examples_pm {
        &c.examples[rng.below(c.examples.len())]
    } else {
        &c.snippets[rng.below(c.snippets.len())]
    }
}

pub fn pick_self_contained(rng: &mut Rng) -> &'static Entry {
    let c = corpus();
    for _ in 0..64 {
        let e = &c.snippets[rng.below(c.snippets.len())];
        if e.self_contained() {
            return e;
        }
    }
    &c.snippets[0]
}
