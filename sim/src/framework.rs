//! Batch runner, evidence writer, replay files, minimisation, known-finding attribution.

use crate::rng::{self, Rng};
use serde::{Serialize, de::DeserializeOwned};
use serde_json::{Value, json};
use std::collections::{BTreeMap, HashSet};
use std::panic::{AssertUnwindSafe, catch_unwind};
use std::path::{Path, PathBuf};
use std::sync::Mutex;
use std::sync::atomic::{AtomicBool, AtomicUsize, Ordering};
use std::time::Instant;

#[derive(Clone, Copy, Debug, PartialEq, Eq)]
pub enum Tier {
    Quick,
    Thorough,
}

impl Tier {
    pub fn name(self) -> &'static str {
        match self {
            Tier::Quick => "quick",
            Tier::Thorough => "thorough",
        }
    }
}

pub const DEFAULT_SEED: u64 = 20260923;

#[derive(Clone, Debug)]
pub struct Ctx {
    pub tier: Tier,
    pub seed: u64,
    pub threads: usize,
    pub runs_override: Option<usize>,
    pub verif_dir: PathBuf,
}

impl Ctx {
    pub fn from_env(tier: Tier) -> Ctx {
        let seed = std::env::var("VERIF_SEED")
            .ok()
            .and_then(|s| s.trim().parse::<u64>().ok())
            .unwrap_or(DEFAULT_SEED);
        let threads = std::env::var("VERIF_THREADS")
            .ok()
            .and_then(|s| s.parse::<usize>().ok())
            .unwrap_or_else(|| {
                std::thread::available_parallelism()
                    .map(|n| n.get())
                    .unwrap_or(4)
            })
            .max(1);
        let runs_override = std::env::var("VERIF_RUNS")
            .ok()
            .and_then(|s| s.parse::<usize>().ok());
        let verif_dir = std::env::var("VERIF_DIR")
            .map(PathBuf::from)
            .unwrap_or_else(|_| PathBuf::from("/verif"));
        Ctx {
            tier,
            seed,
            threads,
            runs_override,
            verif_dir,
        }
    }
    pub fn runs(&self, quick: usize, thorough: usize) -> usize {
        if let Some(r) = self.runs_override {
            return r;
        }
        match self.tier {
            Tier::Quick => quick,
            Tier::Thorough => thorough,
        }
    }
}

#[derive(Clone, Debug, Serialize, serde::Deserialize)]
pub struct Failure {
    /// Which oracle clause failed (stable identifier; minimisation keeps it fixed)
    pub clause: String,
    /// Short digest of what was observed (compared on replay)
    pub observed: String,
    /// Free-form detail (expected vs observed, traces …)
    pub detail: Value,
}

impl Failure {
    pub fn new(clause: &str, observed: impl Into<String>, detail: Value) -> Failure {
        Failure {
            clause: clause.to_string(),
            observed: observed.into(),
            detail,
        }
    }
}

#[derive(Clone, Debug, Default)]
pub struct RunReport {
    pub trace_hash: u64,
    /// at least one schedule/fault event actually fired in this run
    pub nontrivial: bool,
    /// fault kinds fired and reach probes hit (name -> count)
    pub counters: BTreeMap<String, u64>,
    pub sim_instructions: u64,
    pub sim_ms: u64,
    pub failure: Option<Failure>,
}

impl RunReport {
    pub fn bump(&mut self, name: &str, n: u64) {
        if n > 0 {
            *self.counters.entry(name.to_string()).or_insert(0) += n;
        }
    }
    pub fn fail(&mut self, f: Failure) {
        if self.failure.is_none() {
            self.failure = Some(f);
        }
    }
}

pub trait Check: Sync {
    type Scn: Serialize + DeserializeOwned + Clone + Send + Sync;
    fn id(&self) -> &'static str;
    fn level(&self) -> &'static str {
        "exploration"
    }
    fn rule(&self) -> String;
    fn generate(&self, rng: &mut Rng, idx: usize, tier: Tier) -> Self::Scn;
    /// Generator per batch stream (default: the one generator). Checks with a corpus stratum
    /// override this for the stream named "corpus".
    fn generate_stream(&self, _stream: &str, rng: &mut Rng, idx: usize, tier: Tier) -> Self::Scn {
        self.generate(rng, idx, tier)
    }
    fn execute(&self, scn: &Self::Scn) -> RunReport;
    /// Candidate simplifications of a failing scenario (each strictly "smaller").
    fn shrink(&self, _scn: &Self::Scn) -> Vec<Self::Scn> {
        Vec::new()
    }
    /// If the failure is an instance of a recorded finding, return the finding id.
    /// Implementations must follow DESIGN §3.5: trigger predicate holds AND neutralising
    /// the trigger makes the scenario pass.
    fn attribute(&self, _scn: &Self::Scn, _f: &Failure, _open: &[Finding]) -> Option<String> {
        None
    }
    /// Components: which ran real code and which a stub
    fn components(&self) -> Value;
    fn assumptions(&self) -> Vec<String> {
        Vec::new()
    }
}

pub fn execute_caught<C: Check>(check: &C, scn: &C::Scn) -> RunReport {
    match catch_unwind(AssertUnwindSafe(|| check.execute(scn))) {
        Ok(r) => r,
        Err(p) => {
            let msg = if let Some(s) = p.downcast_ref::<&str>() {
                s.to_string()
            } else if let Some(s) = p.downcast_ref::<String>() {
                s.clone()
            } else {
                "panic".to_string()
            };
            let mut r = RunReport::default();
            let short: String = msg.chars().take(160).collect();
            r.failure = Some(Failure::new("panic", short, json!({"panic": msg})));
            r
        }
    }
}

// ───────────────────────────── known findings ─────────────────────────────

#[derive(Clone, Debug, Serialize, serde::Deserialize)]
pub struct Finding {
    pub id: String,
    pub property: String,
    /// "open" (recorded, suppresses its own instances) or "fixed" (suppresses nothing)
    pub status: String,
    #[serde(default)]
    pub clause: String,
    #[serde(default)]
    pub trigger: String,
    /// replay file (relative to /verif) that demonstrates the finding
    #[serde(default)]
    pub witness: String,
    pub what: String,
    #[serde(default)]
    pub commit: String,
    /// explicit list of failing cases (process-stratum findings are identified case by case)
    #[serde(default)]
    pub cases: Vec<String>,
}

#[derive(Clone, Debug, Default, Serialize, serde::Deserialize)]
pub struct KnownFindings {
    pub findings: Vec<Finding>,
}

pub fn load_known_findings(verif_dir: &Path) -> KnownFindings {
    let p = verif_dir.join("known_findings.json");
    match std::fs::read_to_string(&p) {
        Ok(s) => match serde_json::from_str::<KnownFindings>(&s) {
            Ok(k) => k,
            Err(e) => {
                eprintln!("HARNESS-ERROR: cannot parse {}: {}", p.display(), e);
                std::process::exit(2);
            }
        },
        Err(_) => KnownFindings::default(),
    }
}

// ───────────────────────────── replay files ─────────────────────────────

#[derive(Clone, Debug, Serialize, serde::Deserialize)]
pub struct ReplayFile {
    pub property: String,
    pub clause: String,
    pub observed: String,
    pub seed: u64,
    pub run: u64,
    pub scenario: Value,
    #[serde(default)]
    pub detail: Value,
    #[serde(default)]
    pub minimised_steps: u64,
}

/// Replay a file; returns the failure if it reproduces.
pub fn replay<C: Check>(check: &C, rf: &ReplayFile) -> Result<Option<Failure>, String> {
    let scn: C::Scn =
        serde_json::from_value(rf.scenario.clone()).map_err(|e| format!("bad scenario: {e}"))?;
    let rep = execute_caught(check, &scn);
    Ok(rep.failure)
}

// ───────────────────────────── minimisation ─────────────────────────────

fn scn_size<S: Serialize>(s: &S) -> usize {
    serde_json::to_string(s).map(|x| x.len()).unwrap_or(usize::MAX)
}

pub fn minimise<C: Check>(check: &C, scn: &C::Scn, clause: &str, budget: usize) -> (C::Scn, u64) {
    let mut best = scn.clone();
    let mut steps = 0u64;
    let mut tried = 0usize;
    'outer: loop {
        let cands = check.shrink(&best);
        let cur = scn_size(&best);
        for c in cands {
            if tried >= budget {
                break 'outer;
            }
            if scn_size(&c) >= cur {
                continue;
            }
            tried += 1;
            let rep = execute_caught(check, &c);
            if let Some(f) = rep.failure
                && f.clause == clause
            {
                best = c;
                steps += 1;
                continue 'outer;
            }
        }
        break;
    }
    (best, steps)
}

// ───────────────────────────── batch ─────────────────────────────

pub struct BatchResult {
    pub evaluations: u64,
    pub distinct_nontrivial: u64,
    pub counters: BTreeMap<String, u64>,
    pub sim_instructions: u64,
    pub sim_ms: u64,
    pub violations: Vec<(u64, Failure, Value)>,
    pub known_hits: BTreeMap<String, u64>,
    pub samples: Vec<Value>,
    pub determinism_rechecks: u64,
    pub determinism_divergences: u64,
    pub wall_s: f64,
}

/// Run `n` seeded scenarios over `threads` workers. Results are merged by run index so
/// the worker count cannot change the outcome.
pub fn run_batch<C: Check>(check: &C, ctx: &Ctx, stream: &str, n: usize, open: &[Finding]) -> BatchResult {
    let t0 = Instant::now();
    let next = AtomicUsize::new(0);
    let stop = AtomicBool::new(false);
    struct Slot {
        hash: u64,
        nontrivial: bool,
        counters: BTreeMap<String, u64>,
        instr: u64,
        ms: u64,
        failure: Option<(Failure, Value)>,
        known: Option<String>,
        sample: Option<Value>,
        recheck: bool,
        diverged: bool,
    }
    let slots: Mutex<Vec<Option<Slot>>> = Mutex::new((0..n).map(|_| None).collect());
    let sid = rng::stream_id(&format!("{}/{}", check.id(), stream));
    // (C12 collects more: scenarios of a batch share the process, so a failure seen in the batch can
    // come from interference BETWEEN scenarios; only failures that reproduce alone are reported)
    let max_fail = std::env::var("VERIF_MAXFAIL").ok().and_then(|s| s.parse::<usize>().ok()).unwrap_or(if check.id() == "C12" { 64 } else { 6 });
    let fail_count = AtomicUsize::new(0);
    let trace_runs = std::env::var("VERIF_TRACE_RUNS").is_ok();
    std::thread::scope(|sc| {
        for _ in 0..ctx.threads.min(n.max(1)) {
            sc.spawn(|| {
                loop {
                    if stop.load(Ordering::Relaxed) {
                        break;
                    }
                    let i = next.fetch_add(1, Ordering::Relaxed);
                    if i >= n {
                        break;
                    }
                    if trace_runs {
                        eprintln!("RUN {}", i);
                    }
                    let seed_i = rng::derive(ctx.seed, sid, i as u64);
                    let mut r = Rng::new(seed_i);
                    let scn = check.generate_stream(stream, &mut r, i, ctx.tier);
                    let rep = execute_caught(check, &scn);
                    // determinism sample: re-execute 1 in 20 in-process and compare digests
                    let recheck = i % 20 == 7;
                    let mut diverged = false;
                    if recheck {
                        let rep2 = execute_caught(check, &scn);
                        if rep2.trace_hash != rep.trace_hash
                            || rep2.failure.as_ref().map(|f| f.clause.clone())
                                != rep.failure.as_ref().map(|f| f.clause.clone())
                        {
                            diverged = true;
                        }
                    }
                    let mut known = None;
                    let mut failure = None;
                    if let Some(f) = rep.failure.clone() {
                        if let Some(id) = check.attribute(&scn, &f, open) {
                            known = Some(id);
                        } else {
                            let v = serde_json::to_value(&scn).unwrap_or(Value::Null);
                            failure = Some((f, v));
                            if fail_count.fetch_add(1, Ordering::Relaxed) + 1 >= max_fail {
                                stop.store(true, Ordering::Relaxed);
                            }
                        }
                    }
                    let sample = if i < 3 {
                        serde_json::to_value(&scn).ok()
                    } else {
                        None
                    };
                    let slot = Slot {
                        hash: rep.trace_hash,
                        nontrivial: rep.nontrivial,
                        counters: rep.counters,
                        instr: rep.sim_instructions,
                        ms: rep.sim_ms,
                        failure,
                        known,
                        sample,
                        recheck,
                        diverged,
                    };
                    slots.lock().unwrap()[i] = Some(slot);
                }
            });
        }
    });
    let slots = slots.into_inner().unwrap();
    let mut res = BatchResult {
        evaluations: 0,
        distinct_nontrivial: 0,
        counters: BTreeMap::new(),
        sim_instructions: 0,
        sim_ms: 0,
        violations: Vec::new(),
        known_hits: BTreeMap::new(),
        samples: Vec::new(),
        determinism_rechecks: 0,
        determinism_divergences: 0,
        wall_s: 0.0,
    };
    let mut distinct: HashSet<u64> = HashSet::new();
    for (i, s) in slots.into_iter().enumerate() {
        let Some(s) = s else { continue };
        res.evaluations += 1;
        if s.nontrivial {
            distinct.insert(s.hash);
        }
        for (k, v) in s.counters {
            *res.counters.entry(k).or_insert(0) += v;
        }
        res.sim_instructions += s.instr;
        res.sim_ms += s.ms;
        if let Some((f, v)) = s.failure {
            res.violations.push((i as u64, f, v));
        }
        if let Some(k) = s.known {
            *res.known_hits.entry(k).or_insert(0) += 1;
        }
        if let Some(v) = s.sample {
            res.samples.push(v);
        }
        if s.recheck {
            res.determinism_rechecks += 1;
        }
        if s.diverged {
            res.determinism_divergences += 1;
        }
    }
    res.distinct_nontrivial = distinct.len() as u64;
    res.wall_s = t0.elapsed().as_secs_f64();
    res
}

pub fn merge(into: &mut BatchResult, other: BatchResult) {
    into.evaluations += other.evaluations;
    into.distinct_nontrivial += other.distinct_nontrivial;
    for (k, v) in other.counters {
        *into.counters.entry(k).or_insert(0) += v;
    }
    into.sim_instructions += other.sim_instructions;
    into.sim_ms += other.sim_ms;
    into.violations.extend(other.violations);
    for (k, v) in other.known_hits {
        *into.known_hits.entry(k).or_insert(0) += v;
    }
    into.samples.extend(other.samples);
    into.determinism_rechecks += other.determinism_rechecks;
    into.determinism_divergences += other.determinism_divergences;
    into.wall_s += other.wall_s;
}

// ───────────────────────────── top-level check driver ─────────────────────────────

pub struct Outcome {
    pub exit: i32,
}

/// What a check's extra stratum (worker processes, cross-process comparison …) adds to the batch totals.
#[derive(Default)]
pub struct ExtraStats {
    pub evaluations: u64,
    pub distinct_nontrivial: u64,
    pub counters: BTreeMap<String, u64>,
    pub samples: Vec<Value>,
}

fn truncate_value(v: &Value, max: usize) -> Value {
    let s = serde_json::to_string(v).unwrap_or_default();
    if s.len() <= max {
        v.clone()
    } else {
        let cut: String = s.chars().take(max).collect();
        json!({"truncated_json": cut})
    }
}

/// Standard flow: known-finding witnesses, seeded batches, minimise + replay + report, evidence.
pub fn run_check<C: Check>(
    check: &C,
    ctx: &Ctx,
    batches: &[(&str, usize)],
    extra: impl FnOnce(&mut BTreeMap<String, Value>, &mut Vec<String>, &mut ExtraStats) -> Vec<(Failure, Value)>,
) -> Outcome {
    let t0 = Instant::now();
    let id = check.id();
    println!(
        "CHECK property={} tier={} seed={} threads={}",
        id,
        ctx.tier.name(),
        ctx.seed,
        ctx.threads
    );
    let kf = load_known_findings(&ctx.verif_dir);
    let open: Vec<Finding> = kf
        .findings
        .iter()
        .filter(|f| f.property == id && f.status == "open")
        .cloned()
        .collect();
    let mut harness_error = false;
    let mut known_seen: Vec<String> = Vec::new();
    // 1. witnesses of recorded findings
    for f in &open {
        if f.witness.is_empty() {
            continue;
        }
        let p = ctx.verif_dir.join(&f.witness);
        match std::fs::read_to_string(&p)
            .map_err(|e| e.to_string())
            .and_then(|s| serde_json::from_str::<ReplayFile>(&s).map_err(|e| e.to_string()))
        {
            Ok(rf) => match replay(check, &rf) {
                Ok(Some(fl)) if fl.clause == rf.clause => {
                    println!("KNOWN-FINDING: property={} {} [{}]", id, f.what, f.id);
                    known_seen.push(f.id.clone());
                }
                Ok(Some(fl)) => {
                    println!(
                        "NOTE: witness of {} now fails a different clause ({} instead of {})",
                        f.id, fl.clause, rf.clause
                    );
                }
                Ok(None) => {
                    println!("NOTE: witness of {} no longer fails (defect gone?)", f.id);
                }
                Err(e) => {
                    eprintln!("HARNESS-ERROR: witness {}: {}", p.display(), e);
                    harness_error = true;
                }
            },
            Err(e) => {
                eprintln!("HARNESS-ERROR: cannot read witness {}: {}", p.display(), e);
                harness_error = true;
            }
        }
    }
    // fixed entries: replay their witnesses as regression scenarios (they suppress nothing)
    let fixed: Vec<Finding> = kf
        .findings
        .iter()
        .filter(|f| f.property == id && f.status == "fixed" && !f.witness.is_empty())
        .cloned()
        .collect();
    let mut regressions: Vec<(Failure, Value, String)> = Vec::new();
    for f in &fixed {
        let p = ctx.verif_dir.join(&f.witness);
        if let Ok(s) = std::fs::read_to_string(&p)
            && let Ok(rf) = serde_json::from_str::<ReplayFile>(&s)
            && let Ok(Some(fl)) = replay(check, &rf)
        {
            regressions.push((fl, rf.scenario.clone(), f.id.clone()));
        }
    }

    // 2. seeded search
    let mut total: Option<BatchResult> = None;
    for (stream, n) in batches {
        if *n == 0 {
            continue;
        }
        let b = run_batch(check, ctx, stream, *n, &open);
        println!(
            "  batch {:<14} runs={} distinct_nontrivial={} violations={} known={} wall={:.1}s",
            stream,
            b.evaluations,
            b.distinct_nontrivial,
            b.violations.len(),
            b.known_hits.values().sum::<u64>(),
            b.wall_s
        );
        match total.as_mut() {
            None => total = Some(b),
            Some(t) => merge(t, b),
        }
    }
    let mut total = total.unwrap_or(BatchResult {
        evaluations: 0,
        distinct_nontrivial: 0,
        counters: BTreeMap::new(),
        sim_instructions: 0,
        sim_ms: 0,
        violations: Vec::new(),
        known_hits: BTreeMap::new(),
        samples: Vec::new(),
        determinism_rechecks: 0,
        determinism_divergences: 0,
        wall_s: 0.0,
    });
    let mut extra_cov: BTreeMap<String, Value> = BTreeMap::new();
    let mut extra_assumptions: Vec<String> = Vec::new();
    let mut extra_stats = ExtraStats::default();
    let extra_fail = extra(&mut extra_cov, &mut extra_assumptions, &mut extra_stats);
    total.evaluations += extra_stats.evaluations;
    total.distinct_nontrivial += extra_stats.distinct_nontrivial;
    for (k, v) in extra_stats.counters {
        *total.counters.entry(k).or_insert(0) += v;
    }
    total.samples.extend(extra_stats.samples);

    if total.determinism_divergences > 0 && id != "C12" {
        eprintln!(
            "HARNESS-ERROR: {} of {} in-process re-executions diverged (simulation not deterministic)",
            total.determinism_divergences, total.determinism_rechecks
        );
        harness_error = true;
    }

    // 3. report violations: minimise, write replay, re-run replay in a fresh process
    let replay_dir = ctx.verif_dir.join("replays");
    let _ = std::fs::create_dir_all(&replay_dir);
    let mut n_viol = 0;
    let mut reported_clauses: HashSet<String> = HashSet::new();
    let mut all: Vec<(u64, Failure, Value)> = total.violations.drain(..).collect();
    for (f, v, fid) in regressions {
        println!("NOTE: fixed finding {} fails again", fid);
        all.push((u64::MAX, f, v));
    }
    for (f, v) in extra_fail {
        all.push((u64::MAX - 1, f, v));
    }
    if std::env::var("VERIF_TRIAGE").is_ok() {
        for (run, f, _) in all.iter() {
            println!("TRIAGE run={} clause={} observed={} detail={}", run, f.clause, f.observed, serde_json::to_string(&f.detail).unwrap_or_default().chars().take(700).collect::<String>());
        }
        all.clear();
    }
    let mut extra_no = 0u32;
    if id == "C12" && std::env::var("VERIF_TRIAGE").is_err() {
        // keep the failures that reproduce when the scenario runs alone in this process
        let before = all.len();
        all.retain(|(run, f, scn_v)| {
            if *run >= u64::MAX - 1 {
                return true;
            }
            match serde_json::from_value::<C::Scn>(scn_v.clone()) {
                Ok(scn) => execute_caught(check, &scn).failure.map(|g| g.clause == f.clause).unwrap_or(false),
                Err(_) => true,
            }
        });
        if all.is_empty() && before > 0 {
            eprintln!("HARNESS-ERROR: {} scenarios diverged inside the batch but none of them diverges when run alone (interference between scenarios of one process: not replayable)", before);
            harness_error = true;
        }
    }
    for (run, f, scn_v) in all.iter() {
        // report at most 2 replay files per clause
        let key = f.clause.clone();
        let cnt = reported_clauses.iter().filter(|c| c.starts_with(&key)).count();
        if cnt >= 2 {
            n_viol += 1;
            continue;
        }
        reported_clauses.insert(format!("{}#{}", key, cnt));
        let (min_v, steps) = match serde_json::from_value::<C::Scn>(scn_v.clone()) {
            Ok(scn) => {
                let (m, st) = minimise(check, &scn, &f.clause, 400);
                (serde_json::to_value(&m).unwrap_or(scn_v.clone()), st)
            }
            Err(_) => (scn_v.clone(), 0),
        };
        // re-execute minimised scenario to get its own observation
        let (clause, observed, detail) = match serde_json::from_value::<C::Scn>(min_v.clone()) {
            Ok(scn) => match execute_caught(check, &scn).failure {
                Some(fl) => (fl.clause, fl.observed, fl.detail),
                None => (f.clause.clone(), f.observed.clone(), f.detail.clone()),
            },
            Err(_) => (f.clause.clone(), f.observed.clone(), f.detail.clone()),
        };
        let rf = ReplayFile {
            property: id.to_string(),
            clause: clause.clone(),
            observed,
            seed: ctx.seed,
            run: *run,
            scenario: min_v,
            detail,
            minimised_steps: steps,
        };
        let name = format!(
            "{}-{}-{}-{}.json",
            id,
            ctx.seed,
            if *run >= u64::MAX - 1 {
                extra_no += 1;
                format!("x{}", extra_no)
            } else {
                run.to_string()
            },
            sanitize(&clause)
        );
        let path = replay_dir.join(name);
        if let Err(e) = std::fs::write(&path, serde_json::to_string_pretty(&rf).unwrap_or_default()) {
            eprintln!("HARNESS-ERROR: cannot write replay {}: {}", path.display(), e);
            harness_error = true;
            continue;
        }
        // fresh-process replay
        let exe = std::env::current_exe().unwrap_or_else(|_| PathBuf::from("tsim"));
        let out = std::process::Command::new(exe)
            .arg("replay")
            .arg(&path)
            .env("TSIM_REPLAY_QUIET", "1")
            .output();
        match out {
            Ok(o) if o.status.code() == Some(1) => {
                println!("VIOLATION property={} replay={}", id, path.display());
                println!("  clause={} minimised_steps={}", clause, steps);
                n_viol += 1;
            }
            Ok(o) => {
                // The minimised scenario does not fail in a fresh process. Minimisation ran inside
                // this process; if the failure depends on state other scenarios left behind here
                // (the very thing C12 is about), shrinking can strip the scenario of what makes it
                // fail on its own. Fall back to the scenario as it was found.
                let original = ReplayFile { property: id.to_string(), clause: f.clause.clone(), observed: f.observed.clone(), seed: ctx.seed, run: *run, scenario: scn_v.clone(), detail: f.detail.clone(), minimised_steps: 0 };
                let again = std::fs::write(&path, serde_json::to_string_pretty(&original).unwrap_or_default()).ok().and_then(|_| {
                    std::process::Command::new(std::env::current_exe().unwrap_or_else(|_| PathBuf::from("tsim"))).arg("replay").arg(&path).env("TSIM_REPLAY_QUIET", "1").output().ok()
                });
                if again.map(|o2| o2.status.code() == Some(1)).unwrap_or(false) {
                    println!("VIOLATION property={} replay={}", id, path.display());
                    println!("  clause={} minimised_steps=0 (the minimised scenario only failed inside the batch process; reported as found)", f.clause);
                    n_viol += 1;
                } else {
                    eprintln!(
                        "HARNESS-ERROR: replay of {} did not reproduce in a fresh process (exit {:?})",
                        path.display(),
                        o.status.code()
                    );
                    harness_error = true;
                }
            }
            Err(e) => {
                eprintln!("HARNESS-ERROR: cannot spawn replay: {}", e);
                harness_error = true;
            }
        }
    }

    // 4. evidence
    let wall = t0.elapsed().as_secs_f64();
    let mut coverage = serde_json::Map::new();
    coverage.insert("evaluations".into(), json!(total.evaluations));
    coverage.insert("distinct_nontrivial".into(), json!(total.distinct_nontrivial));
    coverage.insert("rule".into(), json!(check.rule()));
    let samples: Vec<Value> = total
        .samples
        .iter()
        .take(3)
        .map(|s| truncate_value(s, 6000))
        .collect();
    coverage.insert("samples".into(), json!(samples));
    coverage.insert("exhaustive".into(), json!(false));
    coverage.insert("fault_and_probe_counts".into(), json!(total.counters));
    coverage.insert("sim_instructions".into(), json!(total.sim_instructions));
    coverage.insert("sim_ms".into(), json!(total.sim_ms));
    let per_hour = if wall > 0.0 {
        (total.evaluations as f64 / wall * 3600.0) as u64
    } else {
        0
    };
    coverage.insert("runs_per_hour".into(), json!(per_hour));
    coverage.insert("seeds_per_hour".into(), json!(per_hour));
    coverage.insert("components".into(), check.components());
    coverage.insert(
        "determinism".into(),
        json!({"in_process_reexecutions": total.determinism_rechecks, "divergences": total.determinism_divergences}),
    );
    coverage.insert("known_findings_seen".into(), json!(known_seen));
    coverage.insert("known_finding_instances_in_search".into(), json!(total.known_hits));
    for (k, v) in extra_cov {
        coverage.insert(k, v);
    }
    let mut assumptions = check.assumptions();
    assumptions.extend(extra_assumptions);
    let ev = json!({
        "property_id": id,
        "tier": ctx.tier.name(),
        "seed": ctx.seed,
        "level": check.level(),
        "coverage": Value::Object(coverage),
        "assumptions": assumptions,
        "wall_s": wall,
        "violations": n_viol,
    });
    let evdir = ctx.verif_dir.join("evidence");
    let _ = std::fs::create_dir_all(&evdir);
    let evp = evdir.join(format!("{}.json", id));
    if let Err(e) = std::fs::write(&evp, serde_json::to_string_pretty(&ev).unwrap_or_default()) {
        eprintln!("HARNESS-ERROR: cannot write evidence {}: {}", evp.display(), e);
        harness_error = true;
    }
    println!(
        "DONE property={} evaluations={} distinct_nontrivial={} violations={} known_instances={} wall={:.1}s",
        id,
        total.evaluations,
        total.distinct_nontrivial,
        n_viol,
        total.known_hits.values().sum::<u64>(),
        wall
    );
    let exit = if n_viol > 0 {
        1
    } else if harness_error {
        2
    } else {
        0
    };
    Outcome { exit }
}

fn sanitize(s: &str) -> String {
    s.chars()
        .map(|c| if c.is_ascii_alphanumeric() { c } else { '_' })
        .take(40)
        .collect()
}

pub fn replay_main<C: Check>(check: &C, path: &Path) -> i32 {
    let quiet = std::env::var("TSIM_REPLAY_QUIET").is_ok();
    let s = match std::fs::read_to_string(path) {
        Ok(s) => s,
        Err(e) => {
            eprintln!("HARNESS-ERROR: cannot read {}: {}", path.display(), e);
            return 2;
        }
    };
    let rf: ReplayFile = match serde_json::from_str(&s) {
        Ok(r) => r,
        Err(e) => {
            eprintln!("HARNESS-ERROR: cannot parse {}: {}", path.display(), e);
            return 2;
        }
    };
    match replay(check, &rf) {
        Ok(Some(f)) => {
            if f.clause == rf.clause {
                if !quiet {
                    println!("VIOLATION property={} replay={}", rf.property, path.display());
                    println!("  clause={} observed={}", f.clause, f.observed);
                    println!("  detail={}", serde_json::to_string_pretty(&f.detail).unwrap_or_default());
                    if f.observed != rf.observed {
                        println!("  note: observed digest differs from the recorded one: {}", rf.observed);
                    }
                }
                1
            } else {
                if !quiet {
                    println!(
                        "replay fails a different clause: {} (recorded {})",
                        f.clause, rf.clause
                    );
                }
                3
            }
        }
        Ok(None) => {
            if !quiet {
                println!("replay passes: property={} clause={} not reproduced", rf.property, rf.clause);
            }
            0
        }
        Err(e) => {
            eprintln!("HARNESS-ERROR: {}", e);
            2
        }
    }
}
