//! The simulated host: drives one real `Interpreter` through prepare/step (or eval), answers
//! orders and import requests from an explicit choice tape, owns the collector schedule, the
//! clock, the random source and the console. Everything observable is appended to a trace.

use crate::rng::{Tape, hash_str};
use serde::{Deserialize, Serialize};
use serde_json::Value;
use std::cell::RefCell;
use std::collections::BTreeMap;
use std::fmt::Write as _;
use std::rc::Rc;
use tsrun::platform::{ConsoleLevel, ConsoleProvider, RandomProvider, TimeProvider};
use tsrun::{
    Interpreter, InterpreterConfig, JsError, JsValue, ModulePath, OrderId, OrderResponse,
    RuntimeValue, StepResult, api, create_eval_internal_module, js_value_to_json,
};

// ───────────────────────────── providers (stubs owned by the simulator) ─────────────────────────────

pub struct SimConsole {
    pub lines: Rc<RefCell<Vec<String>>>,
}
impl ConsoleProvider for SimConsole {
    fn write(&self, level: ConsoleLevel, message: &str) {
        let l = match level {
            ConsoleLevel::Log => "log",
            ConsoleLevel::Info => "info",
            ConsoleLevel::Debug => "debug",
            ConsoleLevel::Warn => "warn",
            ConsoleLevel::Error => "error",
        };
        self.lines.borrow_mut().push(format!("{}:{}", l, message));
    }
    fn clear(&self) {
        self.lines.borrow_mut().push("clear".to_string());
    }
}

/// Simulated clock: every read advances it by a fixed amount, so time is a function of the
/// number of reads the program made (deterministic) and never of a real clock.
pub struct SimClock {
    pub now: Rc<RefCell<i64>>,
    pub tick: i64,
}
impl TimeProvider for SimClock {
    fn now_millis(&self) -> i64 {
        let mut n = self.now.borrow_mut();
        *n += self.tick;
        *n
    }
    fn elapsed_millis(&self, start: u64) -> u64 {
        let mut n = self.now.borrow_mut();
        *n += self.tick;
        (*n as u64).saturating_sub(start)
    }
    fn start_timer(&self) -> u64 {
        let mut n = self.now.borrow_mut();
        *n += self.tick;
        *n as u64
    }
}

pub struct SimRandom {
    pub state: u64,
}
impl RandomProvider for SimRandom {
    fn random(&mut self) -> f64 {
        let x = crate::rng::splitmix64(&mut self.state);
        (x >> 11) as f64 / (1u64 << 53) as f64
    }
}

// ───────────────────────────── scenario pieces ─────────────────────────────

#[derive(Clone, Debug, Serialize, Deserialize, PartialEq)]
pub enum Answer {
    /// answer the order immediately with this JSON value
    Value(Value),
    /// answer the order immediately with an error
    Error(String),
    /// answer with a pending host promise, fulfilled later with this value
    DeferValue(Value),
    /// answer with a pending host promise, rejected later with this string
    DeferReject(String),
    /// answer the order immediately with `undefined`
    Undefined,
}

#[derive(Clone, Debug, Serialize, Deserialize, PartialEq)]
pub enum Inject {
    None,
    /// each allocation collects with probability pm/1000 (decided by a hash of (seed, index))
    Prob { pm: u32, seed: u64 },
    /// every allocation with index in from..from+len collects
    Window { from: u64, len: u64 },
    /// exactly these allocation indices collect
    Explicit(Vec<u64>),
    /// burst window placed relative to the allocation count of the reference run:
    /// from = from_pm/1000 * total, every allocation in from..from+len collects
    WindowFrac { from_pm: u32, len: u64 },
}

#[derive(Clone, Debug, Serialize, Deserialize, PartialEq)]
pub struct GcSched {
    /// set_gc_threshold value (0 = automatic collection off)
    pub threshold: u32,
    pub inject: Inject,
    /// host-forced collect() after a step with probability pm/1000 (step mode only)
    pub force_step_pm: u32,
    pub force_seed: u64,
    /// host-forced collect() at every Suspended / NeedImports / before fulfil
    pub force_at_suspend: bool,
}

impl GcSched {
    pub fn off() -> GcSched {
        GcSched {
            threshold: 0,
            inject: Inject::None,
            force_step_pm: 0,
            force_seed: 0,
            force_at_suspend: false,
        }
    }
    pub fn threshold(t: u32) -> GcSched {
        GcSched {
            threshold: t,
            ..GcSched::off()
        }
    }
    pub fn is_off(&self) -> bool {
        self.threshold == 0
            && self.inject == Inject::None
            && self.force_step_pm == 0
            && !self.force_at_suspend
    }
}

#[derive(Clone, Copy, Debug, Serialize, Deserialize, PartialEq, Eq)]
pub enum Driver {
    /// eval() then step() after every suspension
    Eval,
    /// prepare() + step() loop
    Step,
}

#[derive(Clone, Debug, Serialize, Deserialize)]
pub struct RunSpec {
    pub source: String,
    pub path: Option<String>,
    /// module store: resolved path -> source
    #[serde(default)]
    pub modules: BTreeMap<String, String>,
    /// answers by hole key (payload `{k: <key>}`); orders without an entry get Value(null)
    #[serde(default)]
    pub answers: BTreeMap<String, Answer>,
    pub driver: Driver,
    pub gc: GcSched,
    /// host decisions (exhausted tape = simplest choice: answer everything, in order, no idling)
    pub tape: Tape,
    pub fuel: u64,
    #[serde(default)]
    pub clock_start: i64,
    #[serde(default)]
    pub random_seed: u64,
    /// the host never delivers requested modules: the run ends "abandoned" at its first NeedImports
    #[serde(default)]
    pub withhold_imports: bool,
    /// deferred answers use order-linked promises (api::create_order_promise) instead of plain ones
    #[serde(default)]
    pub linked_promises: bool,
    /// host activity between steps (reads of call depth / gc stats / export names, creation and
    /// dropping of guards and unrelated JSON objects) with probability pm/1000 per step
    #[serde(default)]
    pub host_activity_pm: u32,
    /// internal source modules registered at interpreter creation: specifier -> source
    #[serde(default)]
    pub internal_sources: BTreeMap<String, String>,
    /// order ids of EARLIER runs on the same interpreter that were never answered: a slow host
    /// delivers their answers now, at this run's first suspension, before its own answers
    #[serde(default)]
    pub stale_answer_ids: Vec<u64>,
    /// every requested module is first answered with a stub source and then, before it has run,
    /// with the real one (a host that replaces a placeholder): the later supply counts
    #[serde(default)]
    pub stub_then_real: bool,
}

#[derive(Clone, Debug, Default)]
pub struct Outcome {
    /// "complete:<json>" | "error:<Kind>:<message>" | "stuck:<why>" | "fuel" | "budget"
    pub result: String,
    pub console: Vec<String>,
    /// non-Continue step results and host actions, canonical text
    pub traffic: Vec<String>,
    pub steps: u64,
    pub suspensions: u64,
    pub import_rounds: u64,
    pub orders_seen: u64,
    pub stale: Vec<String>,
    pub stale_clones: u64,
    pub counters: tsrun::verif::Counters,
    pub exports: Vec<(String, String)>,
    /// export names in the order `get_export_names()` returned them
    pub export_order: Vec<String>,
    pub forced_collects: u64,
    pub idle_steps: u64,
    pub deferred_settled: u64,
    pub error_answers: u64,
    /// max instructions inside one Interpreter::step() call
    pub max_step_instr: u64,
    pub max_call_depth: usize,
    /// gc_stats().live_objects after each host-forced collection at a suspension
    pub live_at_suspend: Vec<u64>,
    /// max instructions inside one step() call that did NOT re-enter the VM through a native
    pub max_step_instr_no_reentry: u64,
    /// number of step() calls during which a native re-entered the VM (nested BytecodeVM::run)
    pub steps_with_reentry: u64,
    /// first line of the error's display text (what a C host sees), when the run failed
    pub error_text: Option<String>,
    pub host_activity: u64,
    /// values the host kept (order payloads, the completion value) re-read at the end of the run,
    /// after further collections and allocations: first difference, if any
    pub held_value_changed: Option<String>,
    pub held_values_reread: u64,
}

impl Outcome {
    /// What the program can observe / what the property compares (no step counts).
    pub fn observable(&self) -> String {
        let mut s = String::new();
        let _ = write!(s, "{}\n--console--\n", self.result);
        for l in &self.console {
            let _ = writeln!(s, "{}", l);
        }
        s
    }
    pub fn digest(&self) -> u64 {
        let mut s = self.observable();
        for t in &self.traffic {
            s.push_str(t);
            s.push('\n');
        }
        hash_str(&s)
    }
}

pub fn err_kind_msg(e: &JsError) -> (String, String) {
    match e {
        JsError::SyntaxError { message, .. } => ("SyntaxError".into(), message.clone()),
        JsError::TypeError { message, .. } => ("TypeError".into(), message.clone()),
        JsError::ReferenceError { name } => ("ReferenceError".into(), name.clone()),
        JsError::RangeError { message } => ("RangeError".into(), message.clone()),
        JsError::RuntimeError { kind, message, .. } => (kind.clone(), message.clone()),
        JsError::ModuleError { message } => ("ModuleError".into(), message.clone()),
        JsError::Internal(m) => ("Internal".into(), m.clone()),
        other => ("Other".into(), other.to_string()),
    }
}

pub fn show_value(v: &JsValue) -> String {
    match v {
        JsValue::Undefined => "undefined".into(),
        JsValue::String(s) => format!("s:{}", s),
        other => match js_value_to_json(other) {
            Ok(j) => serde_json::to_string(&j).unwrap_or_else(|_| "?".into()),
            Err(e) => format!("unjsonable:{}", err_kind_msg(&e).0),
        },
    }
}

fn mix(seed: u64, i: u64) -> u64 {
    let mut s = seed ^ i.wrapping_mul(0x9E37_79B9_7F4A_7C15);
    crate::rng::splitmix64(&mut s)
}

thread_local! {
    static INJECTED_AT: RefCell<Vec<u64>> = const { RefCell::new(Vec::new()) };
}

/// Allocation indices at which the installed decider injected a collection (since install).
pub fn injected_indices() -> Vec<u64> {
    INJECTED_AT.with(|v| v.borrow().clone())
}

pub fn install_gc(gc: &GcSched, total_allocs_hint: u64) {
    INJECTED_AT.with(|v| v.borrow_mut().clear());
    let rec = |b: bool, i: u64| -> bool {
        if b {
            INJECTED_AT.with(|v| {
                let mut v = v.borrow_mut();
                if v.len() < 100_000 {
                    v.push(i)
                }
            });
        }
        b
    };
    match gc.inject.clone() {
        Inject::WindowFrac { from_pm, len } => {
            let from = total_allocs_hint.saturating_mul(from_pm as u64) / 1000;
            tsrun::verif::set_gc_decider(Some(Box::new(move |i| rec(i >= from && i < from + len, i))))
        }
        Inject::None => tsrun::verif::set_gc_decider(None),
        Inject::Prob { pm, seed } => tsrun::verif::set_gc_decider(Some(Box::new(move |i| {
            rec((mix(seed, i) % 1000) < pm as u64, i)
        }))),
        Inject::Window { from, len } => tsrun::verif::set_gc_decider(Some(Box::new(move |i| {
            rec(i >= from && i < from + len, i)
        }))),
        Inject::Explicit(v) => {
            let set: std::collections::HashSet<u64> = v.into_iter().collect();
            tsrun::verif::set_gc_decider(Some(Box::new(move |i| rec(set.contains(&i), i))))
        }
    }
}

/// Simulated RegExp engines (existing seam `set_regexp_provider`): which engine an instance has
/// is part of its outside world. Flavour 1 folds case for every pattern, flavour 2 takes every
/// pattern literally; both delegate the matching itself to the default engine.
pub struct SimRegExp {
    pub flavour: u8,
    inner: tsrun::platform::FancyRegexProvider,
}
impl tsrun::platform::RegExpProvider for SimRegExp {
    fn compile(&self, pattern: &str, flags: &str) -> Result<Rc<dyn tsrun::platform::CompiledRegex>, String> {
        match self.flavour {
            1 => {
                let f = if flags.contains('i') { flags.to_string() } else { format!("{}i", flags) };
                self.inner.compile(pattern, &f)
            }
            2 => {
                let mut lit = String::new();
                for c in pattern.chars() {
                    if "\\.+*?()|[]{}^$#&-~/".contains(c) {
                        lit.push('\\');
                    }
                    lit.push(c);
                }
                self.inner.compile(&lit, flags)
            }
            _ => self.inner.compile(pattern, flags),
        }
    }
}

pub fn new_interp_flavoured(clock_start: i64, random_seed: u64, regexp_flavour: u8) -> Host {
    let mut h = new_interp(clock_start, random_seed);
    if regexp_flavour != 0 {
        h.interp.set_regexp_provider(Rc::new(SimRegExp { flavour: regexp_flavour, inner: tsrun::platform::FancyRegexProvider::new() }));
    }
    h
}

pub struct Host {
    pub interp: Interpreter,
    pub console: Rc<RefCell<Vec<String>>>,
    pub clock: Rc<RefCell<i64>>,
}

pub fn new_interp(spec_clock_start: i64, random_seed: u64) -> Host {
    new_interp_with(spec_clock_start, random_seed, &BTreeMap::new())
}

/// The harness library: an internal SOURCE module registered on every simulated interpreter (it is
/// instantiated lazily, on first import). Its functions use globals (`undefined`, `Array`,
/// `String`, ...), read free identifiers (`probe`), keep module state and hand out fresh objects.
pub const LIB_UTIL: &str = "let calls: number = 0;\nexport const seed: any = { base: 7, list: [1, 2, { deep: true }] };\nexport function probe(): string { return [typeof __log, typeof __show, typeof __tag, typeof vr, typeof ur, typeof wr, typeof inner].join(\",\"); }\nexport function kinds(x: any): string { calls += 1; return (x === undefined ? \"u\" : Array.isArray(x) ? \"a\" : String(typeof x)) + \":\" + Number(\"4\") + Boolean(1) + (NaN !== NaN) + (1 / 0 === Infinity); }\nexport function mk(n: any): any { return { n: n, from: seed.list.slice(0, 2), tag: String(n) }; }\nexport function bumpLib(n: any): number { seed.base += 1; seed.list.push({ added: n }); if (seed.list.length > 6) { seed.list.splice(3, 1); } return seed.base - calls * 0; }\nexport default { name: \"util\", v: 1 };\n";

pub fn new_interp_with(spec_clock_start: i64, random_seed: u64, internal_sources: &BTreeMap<String, String>) -> Host {
    let mut internal_modules = vec![create_eval_internal_module()];
    if !internal_sources.contains_key("lib:util") {
        internal_modules.push(tsrun::InternalModule::source("lib:util".to_string(), LIB_UTIL.to_string()));
    }
    // ... and one whose body dies after it has built and exported something
    if !internal_sources.contains_key("lib:bad") {
        internal_modules.push(tsrun::InternalModule::source(
            "lib:bad".to_string(),
            "export const big: any[] = [{ a: 1 }, { b: [2] }, {}];\nconst keep: any = { big: big };\nfunction boom(): any { throw new Error(\"lib:bad died \" + big.length); }\nboom();\nexport const never: number = keep.big.length;\n".to_string(),
        ));
    }
    for (k, v) in internal_sources {
        internal_modules.push(tsrun::InternalModule::source(k.clone(), v.clone()));
    }
    let config = InterpreterConfig {
        internal_modules,
        ..Default::default()
    };
    let mut interp = Interpreter::with_config(config);
    let console = Rc::new(RefCell::new(Vec::new()));
    let clock = Rc::new(RefCell::new(spec_clock_start));
    interp.set_console(Box::new(SimConsole {
        lines: console.clone(),
    }));
    interp.set_time_provider(Box::new(SimClock {
        now: clock.clone(),
        tick: 7,
    }));
    interp.set_random_provider(Box::new(SimRandom {
        state: random_seed ^ 0x5eed,
    }));
    Host {
        interp,
        console,
        clock,
    }
}

struct Deferred {
    promise: RuntimeValue,
    key: String,
    ok: bool,
    value: Value,
    err: String,
}

/// State of one run in progress (used directly by multi-instance schedulers, C12).
pub struct Run {
    pub spec: RunSpec,
    pub tape: Tape,
    pub out: Outcome,
    unanswered: Vec<(OrderId, String)>, // (id, key)
    deferred: Vec<Deferred>,
    started: bool,
    pub finished: bool,
    idle_in_row: u32,
    rounds: u64,
    needed: Vec<(String, String)>, // (resolved, specifier) currently requested
    provided: std::collections::BTreeSet<String>,
    pub stop_reason: Option<String>,
    keepalive: Vec<RuntimeValue>,
    console_start: usize,
    /// host-held values with what they showed when the host received them
    held: Vec<(RuntimeValue, String)>,
    /// resolve functions the program handed over in order payloads (`{ k, resolve }`): the host
    /// settles those promises later by calling the function
    resolvers: Vec<(JsValue, f64)>,
    resolver_guard: Option<tsrun::Guard<tsrun::JsObject>>,
}

pub const MAX_ROUNDS: u64 = 400;

/// What a host supplies first when it answers an import with a placeholder.
pub const STUB_MODULE: &str = "console.log(\"stub module ran\"); export const __stub: number = 1;";

/// Bumped at every host action / interpreter step of any run in this process. A watchdog that
/// wants to know whether ONE step is stuck (and not whether a scenario is long) reads it.
pub static HEARTBEAT: std::sync::atomic::AtomicU64 = std::sync::atomic::AtomicU64::new(0);

impl Run {
    /// ids of orders this run reported and the host has not answered
    pub fn unanswered_ids(&self) -> Vec<u64> {
        self.unanswered.iter().map(|(id, _)| id.0).collect()
    }

    pub fn new(spec: RunSpec) -> Run {
        let tape = spec.tape.clone();
        Run {
            spec,
            tape,
            out: Outcome::default(),
            unanswered: Vec::new(),
            deferred: Vec::new(),
            started: false,
            finished: false,
            idle_in_row: 0,
            rounds: 0,
            needed: Vec::new(),
            provided: Default::default(),
            stop_reason: None,
            keepalive: Vec::new(),
            console_start: 0,
            held: Vec::new(),
            resolvers: Vec::new(),
            resolver_guard: None,
        }
    }

    fn finish(&mut self, result: String) {
        self.out.result = result;
        self.finished = true;
    }

    fn order_key(o: &tsrun::Order) -> String {
        if let JsValue::Number(n) = o.payload.value() {
            return format!("{}", n);
        }
        if let JsValue::Object(_) = o.payload.value() {
            if let Ok(k) = api::get_property(o.payload.value(), "k") {
                return match k {
                    JsValue::Number(n) => format!("{}", n),
                    JsValue::String(s) => s.to_string(),
                    _ => "?".into(),
                };
            }
        }
        "?".into()
    }

    fn json_to_rv(interp: &mut Interpreter, v: &Value) -> RuntimeValue {
        match v {
            Value::Null => RuntimeValue::unguarded(JsValue::Null),
            Value::Bool(b) => RuntimeValue::unguarded(JsValue::Boolean(*b)),
            Value::Number(n) => RuntimeValue::unguarded(JsValue::Number(n.as_f64().unwrap_or(0.0))),
            Value::String(s) => RuntimeValue::unguarded(JsValue::from(s.as_str())),
            other => api::create_response_object(interp, other)
                .unwrap_or_else(|_| RuntimeValue::unguarded(JsValue::Undefined)),
        }
    }

    fn handle_result(&mut self, h: &mut Host, r: Result<StepResult, JsError>) {
        match r {
            Ok(StepResult::Continue) => {}
            Ok(StepResult::Complete(v)) => {
                let s = show_value(v.value());
                self.out.traffic.push("complete".into());
                self.finish(format!("complete:{}", s));
                self.held.push((v, s));
            }
            Ok(StepResult::Done) => {
                self.out.traffic.push("done".into());
                self.finish("done".into());
            }
            Ok(StepResult::NeedImports(reqs)) => {
                self.out.import_rounds += 1;
                let mut t = String::from("need:");
                self.needed.clear();
                for r in &reqs {
                    let _ = write!(
                        t,
                        "[{}|{}|{}]",
                        r.specifier,
                        r.resolved_path.as_str(),
                        r.importer.as_ref().map(|p| p.as_str()).unwrap_or("-")
                    );
                    self.needed
                        .push((r.resolved_path.as_str().to_string(), r.specifier.clone()));
                }
                self.out.traffic.push(t);
                self.host_imports(h);
            }
            Ok(StepResult::Suspended { pending, cancelled }) => {
                self.out.suspensions += 1;
                let mut t = String::from("susp:");
                for o in &pending {
                    let key = Self::order_key(o);
                    let _ = write!(t, "[o{}={}]", o.id.0, show_value(o.payload.value()));
                    self.unanswered.push((o.id, key));
                    self.out.orders_seen += 1;
                }
                for c in &cancelled {
                    let _ = write!(t, "[c{}]", c.0);
                }
                self.out.traffic.push(t);
                for o in &pending {
                    if let Ok(f) = api::get_property(o.payload.value(), "resolve")
                        && f.is_callable()
                    {
                        let k = api::get_property(o.payload.value(), "k").ok().and_then(|v| v.as_number()).unwrap_or(0.0);
                        if self.resolver_guard.is_none() {
                            self.resolver_guard = Some(api::create_guard(&h.interp));
                        }
                        if let Some(g) = &self.resolver_guard {
                            api::guard_value(g, &f);
                        }
                        self.resolvers.push((f, k * 10.0 + 2.0));
                    }
                }
                // the host keeps every order payload until the run is over (a "host-held value")
                for o in pending {
                    let shown = show_value(o.payload.value());
                    if self.held.len() < 64 {
                        self.held.push((o.payload, shown));
                    }
                }
                self.host_suspended(h);
            }
            Err(e) => {
                let (k, m) = err_kind_msg(&e);
                self.out.error_text = Some(e.to_string().lines().next().unwrap_or("").to_string());
                self.out.traffic.push("err".into());
                if tsrun::verif::fuel_exhausted() {
                    self.finish("fuel".into());
                } else {
                    self.finish(format!("error:{}:{}", k, m));
                }
            }
        }
    }

    fn host_imports(&mut self, h: &mut Host) {
        self.rounds += 1;
        if self.rounds > MAX_ROUNDS {
            self.finish("budget:rounds".into());
            return;
        }
        if self.spec.gc.force_at_suspend {
            h.interp.collect();
            self.out.forced_collects += 1;
        }
        if self.spec.withhold_imports {
            self.finish("abandoned:need-imports".into());
            return;
        }
        // default: provide everything requested, in request order
        let needed = self.needed.clone();
        let mut any = false;
        for (resolved, _spec) in needed {
            match self.spec.modules.get(&resolved) {
                Some(src) => {
                    if self.spec.stub_then_real {
                        let _ = h.interp.provide_module(ModulePath::new(resolved.clone()), STUB_MODULE);
                    }
                    match h.interp.provide_module(ModulePath::new(resolved.clone()), src) {
                        Ok(()) => {
                            any = true;
                            self.provided.insert(resolved.clone());
                            self.out.traffic.push(format!("provide:{}", resolved));
                        }
                        Err(e) => {
                            let (k, m) = err_kind_msg(&e);
                            self.out.error_text = Some(e.to_string().lines().next().unwrap_or("").to_string());
                            self.finish(format!("error:{}:{}", k, m));
                            return;
                        }
                    }
                }
                None => {
                    self.finish(format!("stuck:module-not-found:{}", resolved));
                    return;
                }
            }
        }
        if !any {
            self.finish("stuck:no-module-provided".into());
        }
    }

    fn host_suspended(&mut self, h: &mut Host) {
        self.rounds += 1;
        if self.rounds > MAX_ROUNDS {
            self.finish("budget:rounds".into());
            return;
        }
        if self.spec.gc.force_at_suspend {
            h.interp.collect();
            self.out.forced_collects += 1;
            self.out.live_at_suspend.push(h.interp.gc_stats().live_objects as u64);
        }
        if !self.spec.stale_answer_ids.is_empty() {
            let ids = std::mem::take(&mut self.spec.stale_answer_ids);
            let responses: Vec<OrderResponse> = ids
                .iter()
                .map(|id| OrderResponse { id: OrderId(*id), result: Ok(RuntimeValue::unguarded(JsValue::from("answer meant for an earlier run"))) })
                .collect();
            h.interp.fulfill_orders(responses);
            // ... and the host steps once before it gets round to this run's own orders
            self.out.idle_steps += 1;
            return;
        }
        if !self.resolvers.is_empty() && ((self.unanswered.is_empty() && self.deferred.is_empty()) || self.tape.chance(1, 3)) {
            // settle a promise of the program by calling the resolve function it handed over
            let i = self.tape.next(self.resolvers.len());
            let (f, v) = self.resolvers.remove(i);
            self.out.traffic.push(format!("call-resolve:{}", v));
            let g = api::create_guard(&h.interp);
            if let Err(e) = api::call_function(&mut h.interp, &g, &f, None, &[JsValue::Number(v)]) {
                let (k, m) = err_kind_msg(&e);
                self.out.traffic.push(format!("call-resolve-err:{}:{}", k, m));
            }
            self.idle_in_row = 0;
            return;
        }
        if self.unanswered.is_empty() && self.deferred.is_empty() {
            // Nothing the host can do. One extra step is allowed (in-program promise jobs may
            // have become ready); after three fruitless rounds the run is stuck.
            self.idle_in_row += 1;
            if self.idle_in_row > 3 {
                self.finish("stuck:suspended-with-nothing-outstanding".into());
            }
            return;
        }
        // choose: idle / answer some orders / settle some deferred
        if self.idle_in_row < 3 && self.tape.chance(1, 6) {
            self.idle_in_row += 1;
            self.out.idle_steps += 1;
            self.out.traffic.push("idle".into());
            return;
        }
        self.idle_in_row = 0;
        let have_orders = !self.unanswered.is_empty();
        let have_deferred = !self.deferred.is_empty();
        let do_orders = if have_orders && have_deferred {
            self.tape.next(2) == 0
        } else {
            have_orders
        };
        if do_orders {
            // answer a non-empty subset, batched in one fulfill_orders call or one by one
            let n = self.unanswered.len();
            let take = 1 + if n > 1 { self.tape.next(n) } else { 0 };
            let take = if self.tape.pos > self.tape.v.len() { n } else { take.min(n) };
            let mut chosen: Vec<(OrderId, String)> = Vec::new();
            for _ in 0..take {
                let i = self.tape.next(self.unanswered.len());
                chosen.push(self.unanswered.remove(i));
            }
            let batched = self.tape.next(2) == 0;
            let mut responses: Vec<OrderResponse> = Vec::new();
            for (id, key) in chosen {
                let ans = self
                    .spec
                    .answers
                    .get(&key)
                    .cloned()
                    .unwrap_or(Answer::Value(Value::Null));
                let result = match &ans {
                    Answer::Undefined => Ok(RuntimeValue::unguarded(JsValue::Undefined)),
                    Answer::Value(v) => Ok(Self::json_to_rv(&mut h.interp, v)),
                    Answer::Error(m) => {
                        self.out.error_answers += 1;
                        Err(JsError::type_error(m.clone()))
                    }
                    Answer::DeferValue(v) => {
                        let p = if self.spec.linked_promises { api::create_order_promise(&mut h.interp, id) } else { api::create_promise(&mut h.interp) };
                        let rv = RuntimeValue::unguarded(p.value().clone());
                        self.deferred.push(Deferred {
                            promise: p,
                            key: key.clone(),
                            ok: true,
                            value: v.clone(),
                            err: String::new(),
                        });
                        // hand the promise to the program; our own RuntimeValue keeps it alive
                        Ok(rv)
                    }
                    Answer::DeferReject(m) => {
                        let p = if self.spec.linked_promises { api::create_order_promise(&mut h.interp, id) } else { api::create_promise(&mut h.interp) };
                        let rv = RuntimeValue::unguarded(p.value().clone());
                        self.deferred.push(Deferred {
                            promise: p,
                            key: key.clone(),
                            ok: false,
                            value: Value::Null,
                            err: m.clone(),
                        });
                        Ok(rv)
                    }
                };
                self.out.traffic.push(format!("fulfil:o{}:{}", id.0, key));
                responses.push(OrderResponse { id, result });
                if !batched {
                    let r = std::mem::take(&mut responses);
                    h.interp.fulfill_orders(r);
                }
            }
            if !responses.is_empty() {
                h.interp.fulfill_orders(responses);
            }
        } else {
            // settle a non-empty subset of deferred promises in a tape-chosen order
            let n = self.deferred.len();
            let take = 1 + if n > 1 { self.tape.next(n) } else { 0 };
            let take = if self.tape.pos > self.tape.v.len() { n } else { take.min(n) };
            for _ in 0..take {
                let i = self.tape.next(self.deferred.len());
                let d = self.deferred.remove(i);
                self.out.deferred_settled += 1;
                self.out.traffic.push(format!("settle:{}:{}", d.key, d.ok));
                let r = if d.ok {
                    let v = Self::json_to_rv(&mut h.interp, &d.value);
                    api::resolve_promise(&mut h.interp, &d.promise, v)
                } else {
                    api::reject_promise(
                        &mut h.interp,
                        &d.promise,
                        RuntimeValue::unguarded(JsValue::from(d.err.as_str())),
                    )
                };
                if let Err(e) = r {
                    let (k, m) = err_kind_msg(&e);
                    self.out.traffic.push(format!("settle-err:{}:{}", k, m));
                }
                // a careful host keeps its own guarded handle until the run is over
                self.keepalive.push(d.promise);
            }
        }
    }

    /// Perform the next host action / interpreter step. Returns false when the run is over.
    pub fn advance(&mut self, h: &mut Host) -> bool {
        HEARTBEAT.fetch_add(1, std::sync::atomic::Ordering::Relaxed);
        if self.finished {
            return false;
        }
        if !self.started {
            self.started = true;
            self.console_start = h.console.borrow().len();
            h.interp.set_gc_threshold(self.spec.gc.threshold as usize);
            let path = self.spec.path.clone().map(ModulePath::new);
            let r = match self.spec.driver {
                Driver::Eval => h.interp.eval(&self.spec.source, path),
                Driver::Step => h.interp.prepare(&self.spec.source, path),
            };
            self.handle_result(h, r);
            return !self.finished;
        }
        let before = tsrun::verif::instructions();
        let runs_before = tsrun::verif::runs_entered();
        let r = h.interp.step();
        let used = tsrun::verif::instructions() - before;
        let reentered = tsrun::verif::runs_entered() != runs_before;
        if used > self.out.max_step_instr {
            self.out.max_step_instr = used;
        }
        if reentered {
            self.out.steps_with_reentry += 1;
        } else if used > self.out.max_step_instr_no_reentry {
            self.out.max_step_instr_no_reentry = used;
        }
        self.out.steps += 1;
        let d = h.interp.call_depth();
        if d > self.out.max_call_depth {
            self.out.max_call_depth = d;
        }
        let cont = matches!(r, Ok(StepResult::Continue));
        self.handle_result(h, r);
        if cont
            && self.spec.host_activity_pm > 0
            && (mix(0xac71, self.out.steps) % 1000) < self.spec.host_activity_pm as u64
        {
            // what a monitoring host does between two steps; none of it may be visible to the program
            self.out.host_activity += 1;
            let _ = h.interp.call_depth();
            let _ = h.interp.gc_stats();
            let _ = h.interp.get_export_names();
            let g = api::create_guard(&h.interp);
            if let Ok(v) = api::create_from_json(&mut h.interp, &g, &serde_json::json!({"host": [1, 2, {"x": "y"}], "n": self.out.steps})) {
                let _ = api::keys(&v);
                let _ = api::get_property(&v, "host").map(|a| api::len(&a));
            }
            drop(g);
        }
        if cont
            && self.spec.gc.force_step_pm > 0
            && (mix(self.spec.gc.force_seed, self.out.steps) % 1000) < self.spec.gc.force_step_pm as u64
        {
            h.interp.collect();
            self.out.forced_collects += 1;
        }
        !self.finished
    }

    pub fn finalize(&mut self, h: &mut Host) {
        // re-read host-held values after more allocation and a collection under the run's schedule
        if !self.held.is_empty() {
            let g = api::create_guard(&h.interp);
            for i in 0..8 {
                let _ = api::create_from_json(&mut h.interp, &g, &serde_json::json!({"junk": [i, {"j": i}], "s": "x"}));
            }
            drop(g);
            if !self.spec.gc.is_off() {
                h.interp.collect();
            }
            for (rv, before) in &self.held {
                self.out.held_values_reread += 1;
                let now = show_value(rv.value());
                if &now != before && self.out.held_value_changed.is_none() {
                    self.out.held_value_changed = Some(format!("was {} now {}", before, now));
                }
            }
        }
        self.held.clear();
        self.out.console = h.console.borrow().get(self.console_start..).map(|s| s.to_vec()).unwrap_or_default();
        let names = {
            let mut n = h.interp.get_export_names();
            self.out.export_order = n.clone();
            n.sort();
            n
        };
        for n in names {
            let v = api::get_export(&h.interp, &n)
                .map(|v| show_value(&v))
                .unwrap_or_else(|| "<none>".into());
            self.out.exports.push((n, v));
        }
        let stale = tsrun::verif::take_stale_derefs();
        self.out.stale = stale.iter().map(|s| format!("{:?}", s)).collect();
        self.out.counters = tsrun::verif::counters();
        self.out.stale_clones = self.out.counters.stale_clones;
    }
}

/// Run one spec on a fresh interpreter, alone in this thread.
pub fn run_solo(spec: &RunSpec) -> Outcome {
    run_solo_hint(spec, 0)
}

/// `total_allocs_hint`: allocation count of the reference run (places WindowFrac bursts).
pub fn run_solo_hint(spec: &RunSpec, total_allocs_hint: u64) -> Outcome {
    tsrun::verif::reset();
    tsrun::verif::set_fuel(Some(spec.fuel));
    install_gc(&spec.gc, total_allocs_hint);
    let mut h = new_interp_with(spec.clock_start, spec.random_seed, &spec.internal_sources);
    let mut run = Run::new(spec.clone());
    while run.advance(&mut h) {}
    run.finalize(&mut h);
    tsrun::verif::set_gc_decider(None);
    tsrun::verif::set_fuel(None);
    drop(h);
    run.out
}
