//! tsim — deterministic simulator with fault injection for tsrun (see /verif/DESIGN.md).

mod capi;
mod corpus;
mod framework;
mod host;
mod memcount;
mod proggen;
mod progscn;
mod props;
mod rng;

#[global_allocator]
static ALLOC: memcount::Counting = memcount::Counting;

use framework::{Ctx, Tier, replay_main, run_check};
use std::path::Path;

fn usage() -> ! {
    eprintln!("usage: tsim check <ID> <quick|thorough> | tsim replay <file>");
    std::process::exit(2);
}

fn check(id: &str, tier: Tier) -> i32 {
    let ctx = Ctx::from_env(tier);
    match id {
        "C13" => {
            let n = ctx.runs(200_000, 20_000_000);
            let nmem = match tier { Tier::Quick => 40_000usize, Tier::Thorough => 2_000_000 };
            let seed = ctx.seed;
            let threads = ctx.threads;
            run_check(&props::c13::C13, &ctx, &[("histories", n)], move |cov, assume, xs| {
                props::c13::memory_stratum(seed, nmem, threads, cov, assume, xs)
            }).exit
        }
        "C17" => {
            let n = ctx.runs(8_000, 400_000);
            let seed = ctx.seed;
            let threads = ctx.threads;
            run_check(&props::c17::C17, &ctx, &[], move |cov, assume, xs| props::c17::strata(seed, n, threads, cov, assume, xs)).exit
        }
        "C06" => {
            let n = ctx.runs(1_500, 45_000);
            let threads = ctx.threads;
            let seed = ctx.seed;
            let kf = framework::load_known_findings(&ctx.verif_dir);
            let open: Vec<framework::Finding> = kf.findings.iter().filter(|f| f.property == "C06" && f.status == "open").cloned().collect();
            run_check(&props::c06::C06, &ctx, &[], move |cov, _, xs| {
                let mut f = props::c06::batch_stratum(seed, n, threads, cov, xs);
                f.extend(props::c06::process_stratum(threads, &open, cov, xs));
                f
            }).exit
        }
        "C19" => {
            let n = ctx.runs(10_000, 300_000);
            let nc = ctx.runs(2_500, 25_000);
            run_check(&props::c19::C19, &ctx, &[("programs", n), ("corpus", nc)], |_, _, _| Vec::new()).exit
        }
        "C09" => {
            let n = ctx.runs(12_000, 300_000);
            run_check(&props::c09::C09, &ctx, &[("graphs", n)], |_, _, _| Vec::new()).exit
        }
        "C08" => {
            let n = ctx.runs(200_000, 5_000_000);
            run_check(&props::c08::C08, &ctx, &[("histories", n)], |_, _, _| Vec::new()).exit
        }
        "C12" => {
            let n = ctx.runs(3_000, 200_000);
            let np = match tier { Tier::Quick => 300usize, Tier::Thorough => 3000 };
            let seed = ctx.seed;
            let nc = ctx.runs(1_300, 25_000);
            run_check(&props::c12::C12, &ctx, &[("scenarios", n), ("corpus", nc)], move |cov, _assume, _xs| {
                // (d) process restarts: same seeds in fresh processes, ASLR on, heap shifted
                let exe = std::env::current_exe().unwrap_or_default();
                let mut outs: Vec<String> = Vec::new();
                let procs = match tier { Tier::Quick => 2, Tier::Thorough => 4 };
                for p in 0..procs {
                    let o = std::process::Command::new(&exe)
                        .args(["c12-worker", &seed.to_string(), &np.to_string()])
                        .env("TSIM_PREALLOC", format!("{}", p * 7_340_033))
                        .output();
                    match o {
                        Ok(o) if o.status.success() => outs.push(String::from_utf8_lossy(&o.stdout).to_string()),
                        _ => outs.push(format!("worker {} failed", p)),
                    }
                }
                let mut fails = Vec::new();
                let lines0: Vec<&str> = outs[0].lines().collect();
                let mut compared = 0u64;
                for (p, o) in outs.iter().enumerate().skip(1) {
                    for (a, b) in lines0.iter().zip(o.lines()) {
                        compared += 1;
                        if *a != b && fails.is_empty() {
                            fails.push((
                                framework::Failure::new("trace_hash_differs_across_processes", format!("{} vs {}", a, b),
                                    serde_json::json!({"process": p, "line_process0": a, "line_other": b})),
                                serde_json::json!({"instances": [], "mode": "Interleave", "sched": {"v": []}, "fuel": 0,
                                    "process_restart": {"seed": seed, "index": a.split(' ').next().and_then(|x| x.parse::<u64>().ok()).unwrap_or(0), "procs": 6}}),
                            ));
                        }
                    }
                    if lines0.len() != o.lines().count() && fails.is_empty() {
                        fails.push((framework::Failure::new("worker_output_length_differs", format!("{} vs {}", lines0.len(), o.lines().count()), serde_json::json!({"process": p})), serde_json::json!({})));
                    }
                }
                cov.insert("process_restart".into(), serde_json::json!({"processes": procs, "seeds_per_process": np, "hash_comparisons": compared, "aslr": std::fs::read_to_string("/proc/sys/kernel/randomize_va_space").unwrap_or_default().trim()}));
                fails
            }).exit
        }
        "C14" => {
            let n = ctx.runs(12_000, 300_000);
            let nc = ctx.runs(2_200, 20_000);
            run_check(&props::c14::C14, &ctx, &[("programs", n), ("corpus", nc)], |_, _, _| Vec::new()).exit
        }
        "C11" => {
            let n = ctx.runs(4_000, 60_000);
            let nc = ctx.runs(2_200, 12_000);
            run_check(&props::c11::C11, &ctx, &[("histories", n), ("corpus", nc)], |_, _, _| Vec::new()).exit
        }
        "C07" => {
            let n = ctx.runs(12_000, 400_000);
            run_check(&props::c07::C07, &ctx, &[("programs", n)], |_, _, _| Vec::new()).exit
        }
        "C02" => {
            let n = ctx.runs(12_000, 400_000);
            let nc = ctx.runs(2_500, 25_000);
            let ns = ctx.runs(3_000, 60_000);
            run_check(&props::c02::C02, &ctx, &[("programs", n), ("corpus", nc), ("sessions", ns)], |_, _, _| Vec::new()).exit
        }
        _ => {
            eprintln!("HARNESS-ERROR: unknown or not-applicable property {}", id);
            2
        }
    }
}

fn replay(path: &Path) -> i32 {
    let s = match std::fs::read_to_string(path) {
        Ok(s) => s,
        Err(e) => {
            eprintln!("HARNESS-ERROR: cannot read {}: {}", path.display(), e);
            return 2;
        }
    };
    let v: serde_json::Value = match serde_json::from_str(&s) {
        Ok(v) => v,
        Err(e) => {
            eprintln!("HARNESS-ERROR: cannot parse {}: {}", path.display(), e);
            return 2;
        }
    };
    let prop = v.get("property").and_then(|p| p.as_str()).unwrap_or("");
    match prop {
        "C13" => replay_main(&props::c13::C13, path),
        "C02" => replay_main(&props::c02::C02, path),
        "C07" => replay_main(&props::c07::C07, path),
        "C11" => replay_main(&props::c11::C11, path),
        "C14" => replay_main(&props::c14::C14, path),
        "C12" => replay_main(&props::c12::C12, path),
        "C08" => replay_main(&props::c08::C08, path),
        "C09" => replay_main(&props::c09::C09, path),
        "C19" => replay_main(&props::c19::C19, path),
        "C06" => replay_main(&props::c06::C06, path),
        "C17" => replay_main(&props::c17::C17, path),
        _ => {
            eprintln!("HARNESS-ERROR: replay file names unknown property {:?}", prop);
            2
        }
    }
}

fn main() {
    // Panics inside tsrun are observations, not crashes of the harness: keep the default hook quiet.
    if std::env::var("TSIM_PANIC_VERBOSE").is_err() {
        std::panic::set_hook(Box::new(|_| {}));
    }
    let args: Vec<String> = std::env::args().collect();
    let code = match args.get(1).map(|s| s.as_str()) {
        Some("check") => {
            let id = args.get(2).cloned().unwrap_or_else(|| usage());
            let tier = match args.get(3).map(|s| s.as_str()) {
                Some("quick") | None => Tier::Quick,
                Some("thorough") => Tier::Thorough,
                _ => usage(),
            };
            check(&id, tier)
        }
        Some("gen") => {
            // debug: print a generated program and its reference outcome
            let seed: u64 = args.get(2).and_then(|s| s.parse().ok()).unwrap_or(1);
            let holes: usize = args.get(3).and_then(|s| s.parse().ok()).unwrap_or(0);
            let mut r = rng::Rng::new(seed);
            let mut cfg = proggen::GenCfg::swarm(&mut r, holes);
            cfg.size = 5 + r.below(40);
            let v = if holes > 0 { proggen::HoleVariant::Order } else { proggen::HoleVariant::Sync };
            let case = progscn::ProgCase::generate(&mut r, cfg, v, "v");
            println!("{}", case.source());
            let out = host::run_solo(&case.spec(host::Driver::Step, host::GcSched::off(), rng::Tape::from_vec(vec![]), 3_000_000));
            println!("// result: {}", out.result);
            println!("// console: {:?}", out.console);
            println!("// traffic: {:?}", out.traffic);
            println!("// answers: {:?}", case.answers);
            0
        }
        Some("run-src") => {
            // debug: run a source file with the simulated host (default answers), print what the host saw
            let f = args.get(2).cloned().unwrap_or_default();
            let thr: u32 = args.get(3).and_then(|s| s.parse().ok()).unwrap_or(0);
            let path = args.get(4).cloned();
            let src = std::fs::read_to_string(&f).unwrap_or_default();
            // further arguments: <module path>=<file> pairs for the host's module store
            let mut modules: std::collections::BTreeMap<String, String> = Default::default();
            let mut answers: std::collections::BTreeMap<String, host::Answer> = Default::default();
            let mut driver = host::Driver::Step;
            for a in args.iter().skip(5) {
                if a == "--eval" {
                    driver = host::Driver::Eval;
                } else if let Some((k, v)) = a.split_once("=defer:") {
                    answers.insert(k.to_string(), host::Answer::DeferValue(serde_json::from_str(v).unwrap_or(serde_json::Value::Null)));
                } else if let Some((k, v)) = a.split_once("=val:") {
                    answers.insert(k.to_string(), host::Answer::Value(serde_json::from_str(v).unwrap_or(serde_json::Value::Null)));
                } else if let Some((k, v)) = a.split_once("=err:") {
                    answers.insert(k.to_string(), host::Answer::Error(v.to_string()));
                } else if let Some((mp, file)) = a.split_once('=') {
                    modules.insert(mp.to_string(), std::fs::read_to_string(file).unwrap_or_default());
                }
            }
            let path = path.filter(|p| p != "-");
            let spec = host::RunSpec {
                source: src, path, modules, answers, driver,
                gc: host::GcSched { force_at_suspend: true, ..host::GcSched::threshold(thr) },
                tape: rng::Tape::from_vec(vec![]), fuel: 3_000_000, clock_start: 0, random_seed: 1, withhold_imports: false, linked_promises: false,
                host_activity_pm: 0, internal_sources: Default::default(), stale_answer_ids: Vec::new(), stub_then_real: false,
            };
            let out = host::run_solo(&spec);
            println!("result: {}", out.result);
            println!("console: {:?}", out.console);
            println!("traffic: {:?}", out.traffic);
            println!("live_at_suspend: {:?}", out.live_at_suspend);
            println!("exports: {:?} steps={} stale={:?}", out.exports, out.steps, out.stale);
            0
        }
        Some("matrix-probe") => {
            // for each native-matrix template: how many of N small programs differ under aggressive GC
            let n: u64 = args.get(2).and_then(|s| s.parse().ok()).unwrap_or(200);
            let from: usize = args.get(3).and_then(|s| s.parse().ok()).unwrap_or(0);
            for k in from..proggen::MATRIX_N {
                let mut bad = 0;
                let mut first: Option<String> = None;
                for seed in 0..n {
                    let mut r = rng::Rng::new(seed * 31 + k as u64);
                    let mut cfg = proggen::GenCfg::swarm(&mut r, 0);
                    cfg.size = 6;
                    cfg.f_class = true;
                    cfg.f_gen = true;
                    cfg.force_matrix = Some(k);
                    let case = progscn::ProgCase::generate(&mut r, cfg, proggen::HoleVariant::Sync, "v");
                    let reference = host::run_solo(&case.spec(host::Driver::Step, host::GcSched::off(), rng::Tape::from_vec(vec![]), 3_000_000));
                    for g in [host::GcSched::threshold(1), host::GcSched::threshold(2), host::GcSched { inject: host::Inject::Prob { pm: 500, seed }, ..host::GcSched::off() }] {
                        let out = host::run_solo(&case.spec(host::Driver::Step, g, rng::Tape::from_vec(vec![]), 3_000_000));
                        if out.result != reference.result || !out.stale.is_empty() {
                            bad += 1;
                            if first.is_none() { first = Some(format!("seed {} expected {} got {} stale {}", seed, reference.result.chars().take(120).collect::<String>(), out.result.chars().take(120).collect::<String>(), out.stale.len())); }
                            break;
                        }
                    }
                }
                println!("template {:2}: {}/{} differ  {}", k, bad, n, first.unwrap_or_default());
            }
            0
        }
        Some("c06-sweep") => {
            // debug: run N native-argument programs in-process; for each failing one find the single
            // call that fails on its own and print it with the failure
            let seed: u64 = args.get(2).and_then(|s| s.parse().ok()).unwrap_or(1);
            let n: u64 = args.get(3).and_then(|s| s.parse().ok()).unwrap_or(100);
            std::panic::set_hook(Box::new(|_| {}));
            let mut seen: std::collections::BTreeMap<String, String> = Default::default();
            for i in 0..n {
                let mut r = rng::Rng::new(rng::derive(seed, 77, i));
                let src = props::c06::native_args_program(&mut r);
                let lines: Vec<&str> = src.lines().collect();
                let (head, calls): (Vec<&str>, Vec<&str>) = lines.iter().partition(|l| !l.starts_with("try { __log.push(S("));
                for c in calls {
                    let one = format!("{}\n{}\n__log.join(\"|\")\n", head[..2.min(head.len())].join("\n"), c);
                    let scn = props::c06::Scn { source: one, step_budget: 3_000_000, depth_limit: 1_000_000, answers_tape: rng::Tape::from_vec(vec![]), case: None, proc_case: None, isolated: false, gc_threshold: *[100u32, 1, 3][(i % 3) as usize..].first().unwrap_or(&100) };
                    let rep = framework::execute_caught(&props::c06::C06, &scn);
                    if let Some(f) = rep.failure {
                        let key = format!("{} {}", f.clause, f.observed.chars().take(90).collect::<String>());
                        seen.entry(key).or_insert_with(|| c.to_string());
                    }
                }
            }
            for (k, v) in seen {
                println!("{}\n    {}", k, v.chars().take(200).collect::<String>());
            }
            0
        }
        Some("matrix-show") => {
            // debug: run every extended template standalone (fresh inputs made in a callee) and print
            // its value without GC pressure and whether threshold-1 GC changes it
            for (i, tpl) in proggen::MATRIX_EXT.iter().enumerate() {
                let k = i + 24;
                let body = tpl.replace("@A", "__mk(4)").replace("@N", "4").replace("@S", "(\"ab\" + \"cd\")");
                let src = format!(
                    "const __log: string[] = [];\n{}\nfunction __mk(n: number): any[] {{ const out: any[] = []; for (let i = 0; i < n; i++) {{ out.push({{ v: i * 2, p: {{ q: \"s\" + i }} }}); }} return out; }}\nfunction __run(): any {{ return {}; }}\nconst __r: any = __run();\nconst __junk: any[] = []; for (let i = 0; i < 6; i++) {{ __junk.push({{ z: i, s: \"x\" + i, a: [i] }}); }}\n__show(__r)",
                    proggen::SHOW_PRELUDE, body
                );
                let mk = |gc: host::GcSched| host::RunSpec {
                    source: src.clone(), path: None, modules: Default::default(), answers: Default::default(), driver: host::Driver::Step, gc,
                    tape: rng::Tape::from_vec(vec![]), fuel: 3_000_000, clock_start: 0, random_seed: 1, withhold_imports: false, linked_promises: false,
                    host_activity_pm: 0, internal_sources: Default::default(), stale_answer_ids: Vec::new(), stub_then_real: false,
                };
                let base = host::run_solo(&mk(host::GcSched::off()));
                let gc = host::run_solo(&mk(host::GcSched::threshold(1)));
                let verdict = if gc.result != base.result || !gc.stale.is_empty() { format!("DIFFERS stale={} got {}", gc.stale.len(), gc.result.chars().take(200).collect::<String>()) } else { "same".into() };
                println!("{:2}: {}\n      {}", k, base.result.chars().take(260).collect::<String>(), verdict);
            }
            0
        }
        Some("genstats") => {
            let n: u64 = args.get(2).and_then(|s| s.parse().ok()).unwrap_or(100);
            let holes: usize = args.get(3).and_then(|s| s.parse().ok()).unwrap_or(0);
            let mut tally: std::collections::BTreeMap<String, (u64, u64)> = Default::default();
            for seed in 0..n {
                let mut r = rng::Rng::new(seed);
                let mut cfg = proggen::GenCfg::swarm(&mut r, holes);
                cfg.size = 5 + r.below(40);
                let v = if holes > 0 { proggen::HoleVariant::Order } else { proggen::HoleVariant::Sync };
                let case = progscn::ProgCase::generate(&mut r, cfg, v, "v");
                let out = host::run_solo(&case.spec(host::Driver::Step, host::GcSched::off(), rng::Tape::random(&mut r, 16), 3_000_000));
                let key: String = if out.result.starts_with("complete:") {
                    let body = &out.result;
                    if let Some(i) = body.find("threw:") { body[i..].split('|').next().unwrap_or("").chars().take(40).collect() } else { "complete".into() }
                } else { out.result.chars().take(90).collect() };
                let e = tally.entry(key).or_insert((0, seed));
                e.0 += 1;
            }
            for (k, (c, s)) in tally { println!("{:6} seed={} {}", c, s, k); }
            0
        }
        Some("dumprun") => {
            // debug: print the scenario of run <idx> of <ID>/<stream> as JSON
            let id = args.get(2).cloned().unwrap_or_default();
            let stream = args.get(3).cloned().unwrap_or_default();
            let idx: u64 = args.get(4).and_then(|s| s.parse().ok()).unwrap_or(0);
            let ctx = Ctx::from_env(Tier::Quick);
            let sid = rng::stream_id(&format!("{}/{}", id, stream));
            let mut r = rng::Rng::new(rng::derive(ctx.seed, sid, idx));
            use framework::Check;
            let v = match id.as_str() {
                "C02" => serde_json::to_value(props::c02::C02.generate_stream(&stream, &mut r, idx as usize, Tier::Quick)).ok(),
                "C07" => serde_json::to_value(props::c07::C07.generate_stream(&stream, &mut r, idx as usize, Tier::Quick)).ok(),
                "C08" => serde_json::to_value(props::c08::C08.generate_stream(&stream, &mut r, idx as usize, Tier::Quick)).ok(),
                "C09" => serde_json::to_value(props::c09::C09.generate_stream(&stream, &mut r, idx as usize, Tier::Quick)).ok(),
                "C19" => serde_json::to_value(props::c19::C19.generate_stream(&stream, &mut r, idx as usize, Tier::Quick)).ok(),
                "C11" => serde_json::to_value(props::c11::C11.generate_stream(&stream, &mut r, idx as usize, Tier::Quick)).ok(),
                "C12" => serde_json::to_value(props::c12::C12.generate_stream(&stream, &mut r, idx as usize, Tier::Quick)).ok(),
                "C14" => serde_json::to_value(props::c14::C14.generate_stream(&stream, &mut r, idx as usize, Tier::Quick)).ok(),
                _ => None,
            };
            let rf = framework::ReplayFile { property: id.clone(), clause: "dump".into(), observed: String::new(), seed: ctx.seed, run: idx, scenario: v.unwrap_or_default(), detail: Default::default(), minimised_steps: 0 };
            println!("{}", serde_json::to_string_pretty(&rf).unwrap_or_default());
            0
        }
        Some("c12-worker") => {
            let seed: u64 = args.get(2).and_then(|s| s.parse().ok()).unwrap_or(1);
            let n: usize = args.get(3).and_then(|s| s.parse().ok()).unwrap_or(10);
            let start: usize = args.get(4).and_then(|s| s.parse().ok()).unwrap_or(0);
            props::c12::worker(seed, n, start);
            0
        }
        Some("c13-exec-one") => {
            // child side of an isolated C13 scenario: scenario JSON on stdin
            use framework::Check;
            let mut buf = String::new();
            let _ = std::io::Read::read_to_string(&mut std::io::stdin(), &mut buf);
            match serde_json::from_str::<props::c13::Scn>(&buf) {
                Ok(scn) => {
                    let rep = props::c13::C13_MEM.execute(&scn);
                    match rep.failure {
                        Some(f) => println!("FAIL {} {}", f.clause, f.observed.replace('\n', " ")),
                        None => println!("OK {:x} {}", rep.trace_hash, rep.nontrivial as u8),
                    }
                    0
                }
                Err(e) => {
                    eprintln!("bad scenario: {}", e);
                    2
                }
            }
        }
        Some("c06-batch-worker") => {
            let seed: u64 = args.get(2).and_then(|s| s.parse().ok()).unwrap_or(1);
            let from: usize = args.get(3).and_then(|s| s.parse().ok()).unwrap_or(0);
            let to: usize = args.get(4).and_then(|s| s.parse().ok()).unwrap_or(0);
            props::c06::batch_worker(seed, from, to);
            0
        }
        Some("c06-exec-one") => props::c06::exec_one_from_stdin(),
        Some("c06-worker") => {
            let name = args.get(2).cloned().unwrap_or_default();
            let param: u64 = args.get(3).and_then(|s| s.parse().ok()).unwrap_or(0);
            let stack: u64 = args.get(4).and_then(|s| s.parse().ok()).unwrap_or(8192);
            props::c06::proc_worker(&name, param, stack);
            0
        }
        Some("c17-worker") => {
            let seed: u64 = args.get(2).and_then(|s| s.parse().ok()).unwrap_or(1);
            let from: usize = args.get(3).and_then(|s| s.parse().ok()).unwrap_or(0);
            let to: usize = args.get(4).and_then(|s| s.parse().ok()).unwrap_or(0);
            props::c17::worker(seed, from, to);
            0
        }
        Some("c17-exec-one") => props::c17::exec_one_from_stdin(),
        Some("c13-worker") => {
            // worker side of the memory stratum: seed, from, to
            let seed: u64 = args.get(2).and_then(|s| s.parse().ok()).unwrap_or(1);
            let from: usize = args.get(3).and_then(|s| s.parse().ok()).unwrap_or(0);
            let to: usize = args.get(4).and_then(|s| s.parse().ok()).unwrap_or(0);
            props::c13::memory_worker(seed, from, to);
            0
        }
        Some("replay") => {
            let p = args.get(2).cloned().unwrap_or_else(|| usage());
            replay(Path::new(&p))
        }
        _ => usage(),
    };
    std::process::exit(code);
}
