//! tsim — deterministic simulator with fault injection for tsrun (see /verif/DESIGN.md).

mod framework;
mod props;
mod rng;

use framework::{Ctx, Tier, replay_main, run_check};
use std::path::Path;

fn usage() -> ! {
    eprintln!("usage: tsim check <ID> <quick|thorough> | tsim replay <file>");
    std::process::exit(2);
}

fn check(id: &str, tier: Tier) -> i32 {
    let ctx = Ctx::from_env(tier);
    match id {
        "C13" => {
            let n = ctx.runs(200_000, 20_000_000);
            run_check(&props::c13::C13, &ctx, &[("histories", n)], |_, _| Vec::new()).exit
        }
        _ => {
            eprintln!("HARNESS-ERROR: unknown or not-applicable property {}", id);
            2
        }
    }
}

fn replay(path: &Path) -> i32 {
    let s = match std::fs::read_to_string(path) {
        Ok(s) => s,
        Err(e) => {
            eprintln!("HARNESS-ERROR: cannot read {}: {}", path.display(), e);
            return 2;
        }
    };
    let v: serde_json::Value = match serde_json::from_str(&s) {
        Ok(v) => v,
        Err(e) => {
            eprintln!("HARNESS-ERROR: cannot parse {}: {}", path.display(), e);
            return 2;
        }
    };
    let prop = v.get("property").and_then(|p| p.as_str()).unwrap_or("");
    match prop {
        "C13" => replay_main(&props::c13::C13, path),
        _ => {
            eprintln!("HARNESS-ERROR: replay file names unknown property {:?}", prop);
            2
        }
    }
}

fn main() {
    // Panics inside tsrun are observations, not crashes of the harness: keep the default hook quiet.
    std::panic::set_hook(Box::new(|_| {}));
    let args: Vec<String> = std::env::args().collect();
    let code = match args.get(1).map(|s| s.as_str()) {
        Some("check") => {
            let id = args.get(2).cloned().unwrap_or_else(|| usage());
            let tier = match args.get(3).map(|s| s.as_str()) {
                Some("quick") | None => Tier::Quick,
                Some("thorough") => Tier::Thorough,
                _ => usage(),
            };
            check(&id, tier)
        }
        Some("replay") => {
            let p = args.get(2).cloned().unwrap_or_else(|| usage());
            replay(Path::new(&p))
        }
        _ => usage(),
    };
    std::process::exit(code);
}
