//! Per-thread count of live heap bytes (allocated minus freed by this thread), used by C06 to give
//! every scenario a memory budget that is a deterministic function of the scenario: the counter
//! sees only what the executing thread itself allocates, so two executions of one scenario cross
//! a threshold at the same step. Memory use is outside what C06 states; the budget ends a run the
//! way the step budget does and exists to keep a batch from exhausting the machine.

use std::alloc::{GlobalAlloc, Layout, System};
use std::cell::Cell;

thread_local! {
    static LIVE: Cell<i64> = const { Cell::new(0) };
}

pub struct Counting;

#[inline]
fn add(n: i64) {
    // try_with: the allocator is used while thread-locals are torn down
    let _ = LIVE.try_with(|c| c.set(c.get().wrapping_add(n)));
}

unsafe impl GlobalAlloc for Counting {
    unsafe fn alloc(&self, l: Layout) -> *mut u8 {
        let p = unsafe { System.alloc(l) };
        if !p.is_null() {
            add(l.size() as i64);
        }
        p
    }
    unsafe fn dealloc(&self, p: *mut u8, l: Layout) {
        unsafe { System.dealloc(p, l) };
        add(-(l.size() as i64));
    }
    unsafe fn alloc_zeroed(&self, l: Layout) -> *mut u8 {
        let p = unsafe { System.alloc_zeroed(l) };
        if !p.is_null() {
            add(l.size() as i64);
        }
        p
    }
    unsafe fn realloc(&self, p: *mut u8, l: Layout, new_size: usize) -> *mut u8 {
        let q = unsafe { System.realloc(p, l, new_size) };
        if !q.is_null() {
            add(new_size as i64 - l.size() as i64);
        }
        q
    }
}

/// Live bytes of the calling thread (may be negative: memory freed here was allocated elsewhere).
pub fn live_bytes() -> i64 {
    LIVE.try_with(|c| c.get()).unwrap_or(0)
}
