//! progGen — structured generator of deterministic TypeScript programs (DESIGN §4.1).
//!
//! Programs need not be correct per ECMAScript; they only have to be deterministic and to
//! terminate, because every oracle that uses them compares tsrun with tsrun under another
//! schedule. The output is a tree of text fragments so that failing programs can be shrunk by
//! deleting statements.

use crate::host::Answer;
use crate::rng::Rng;
use serde::{Deserialize, Serialize};
use serde_json::json;
use std::collections::BTreeMap;

#[derive(Clone, Debug, Serialize, Deserialize, PartialEq)]
pub struct Node {
    pub pre: String,
    #[serde(default, skip_serializing_if = "Vec::is_empty")]
    pub kids: Vec<Node>,
    #[serde(default, skip_serializing_if = "String::is_empty")]
    pub post: String,
}

impl Node {
    pub fn leaf(s: impl Into<String>) -> Node {
        Node {
            pre: s.into(),
            kids: Vec::new(),
            post: String::new(),
        }
    }
    pub fn block(pre: impl Into<String>, kids: Vec<Node>, post: impl Into<String>) -> Node {
        Node {
            pre: pre.into(),
            kids,
            post: post.into(),
        }
    }
    pub fn render(&self, out: &mut String, indent: usize) {
        for _ in 0..indent {
            out.push_str("  ");
        }
        out.push_str(&self.pre);
        out.push('\n');
        for k in &self.kids {
            k.render(out, indent + 1);
        }
        if !self.post.is_empty() {
            for _ in 0..indent {
                out.push_str("  ");
            }
            out.push_str(&self.post);
            out.push('\n');
        }
    }
    pub fn count(&self) -> usize {
        1 + self.kids.iter().map(|k| k.count()).sum::<usize>()
    }
    /// Remove the i-th node (pre-order, root = 0 is never removed). Returns true if removed.
    pub fn remove_nth(&mut self, n: &mut usize) -> bool {
        let mut i = 0;
        while i < self.kids.len() {
            if *n == 0 {
                self.kids.remove(i);
                return true;
            }
            *n -= 1;
            if self.kids[i].remove_nth(n) {
                return true;
            }
            i += 1;
        }
        false
    }
    /// Replace the i-th block node by its children (unwrap). Returns true if done.
    pub fn unwrap_nth(&mut self, n: &mut usize) -> bool {
        let mut i = 0;
        while i < self.kids.len() {
            if !self.kids[i].kids.is_empty() {
                if *n == 0 {
                    let k = self.kids.remove(i);
                    for (j, c) in k.kids.into_iter().enumerate() {
                        self.kids.insert(i + j, c);
                    }
                    return true;
                }
                *n -= 1;
            }
            if self.kids[i].unwrap_nth(n) {
                return true;
            }
            i += 1;
        }
        false
    }
}

#[derive(Clone, Copy, Debug, Serialize, Deserialize, PartialEq, Eq)]
pub enum HoleVariant {
    /// `order({k})` from tsrun:host behind an arrow function — the VM suspends to the host
    /// inside a callee frame
    Order,
    /// `order(k)` imported as `__h` itself — the VM suspends in the frame of the hole
    OrderDirect,
    /// resolved / rejected promise built in-program
    Promise,
    /// synchronous stub returning / throwing the value
    Sync,
}

#[derive(Clone, Debug)]
pub struct GenCfg {
    pub size: usize,
    pub max_depth: usize,
    pub holes: usize,
    /// allow answers that are errors / deferred
    pub hole_errors: bool,
    pub hole_deferred: bool,
    /// deferred answers may be rejections (the Rust host rejects with a string, the C API can
    /// only reject with an Error object: driver comparisons switch this off)
    pub hole_defer_reject: bool,
    pub f_class: bool,
    pub f_gen: bool,
    pub f_proxy: bool,
    pub f_json: bool,
    pub f_mapset: bool,
    pub f_try: bool,
    pub f_closure: bool,
    pub f_sort: bool,
    pub f_destructure: bool,
    pub f_template: bool,
    pub f_getter: bool,
    pub f_label: bool,
    pub f_async_helpers: bool,
    pub f_string_natives: bool,
    pub f_symbol: bool,
    pub f_timeish: bool,
    /// statements that write to a shared global (not self-contained); off for C11/C14
    pub f_global_effects: bool,
    /// break / continue statements (they leave block scopes; quarantined where KF-C14-3 applies)
    pub f_break: bool,
    /// the main function is synchronous and nothing awaits (module bodies that must run to
    /// completion without the host)
    pub sync_main: bool,
    /// debugging / probing: always use this native-matrix template
    pub force_matrix: Option<usize>,
    /// orders issued in a batch through a native (`[..].map(order)`), markers awaited later
    pub f_batch_orders: bool,
    /// ... or never awaited at all (the run then ends Suspended -> Done and its completion value
    /// is not reported: only driver comparisons use this)
    pub f_batch_unawaited: bool,
    /// every third generated name is more than 100 bytes long
    pub f_long_names: bool,
    /// the program hands the resolve function of one of its promises to the host (in an order
    /// payload); the host settles the promise later by CALLING that function
    pub f_host_resolver: bool,
    /// the program imports the harness library `lib:util` (an InternalModule::source registered on
    /// every simulated interpreter) and calls into it
    pub f_lib: bool,
}

impl GenCfg {
    pub fn swarm(rng: &mut Rng, holes: usize) -> GenCfg {
        let mut on = |p: f64| rng.chance(p);
        GenCfg {
            size: 0,
            max_depth: 3,
            holes,
            hole_errors: true,
            hole_deferred: true,
            hole_defer_reject: true,
            f_class: on(0.7),
            f_gen: on(0.7),
            f_proxy: on(0.4),
            f_json: on(0.7),
            f_mapset: on(0.7),
            f_try: on(0.8),
            f_closure: on(0.8),
            f_sort: on(0.6),
            f_destructure: on(0.7),
            f_template: on(0.7),
            f_getter: on(0.5),
            f_label: on(0.4),
            f_async_helpers: on(0.6),
            f_string_natives: on(0.7),
            f_symbol: on(0.3),
            f_timeish: on(0.5),
            f_global_effects: false,
            f_break: true,
            sync_main: false,
            force_matrix: None,
            f_batch_orders: on(0.6),
            f_batch_unawaited: false,
            f_long_names: on(0.15),
            f_host_resolver: on(0.5),
            f_lib: on(0.3),
        }
    }
}

#[derive(Clone, Copy, Debug, PartialEq, Eq, Hash, PartialOrd, Ord)]
enum Ty {
    Num,
    Str,
    Arr,
    Obj,
    Map,
    Set,
    Fun,
    Inst,
    GenFn,
    AFun,
    /// array whose elements are fresh objects `{ v: number }`
    OArr,
    /// result of a hole call that was not awaited: a plain value (stub / immediate answer)
    /// or a host promise (deferred answer); only `await` and Promise.all may consume it
    HVal,
    /// synchronous function whose body issues a (blocking) order without await
    SFun,
    /// a Symbol kept in a variable
    Sym,
}

#[derive(Clone)]
struct Var {
    name: String,
    ty: Ty,
    mutable: bool,
}

pub struct Program {
    pub root: Node,
    pub answers: BTreeMap<String, Answer>,
    pub holes_emitted: usize,
    pub tags: Vec<&'static str>,
}

pub struct Gen<'a> {
    rng: &'a mut Rng,
    cfg: GenCfg,
    scopes: Vec<Vec<Var>>,
    counter: usize,
    holes_left: usize,
    hole_id: usize,
    answers: BTreeMap<String, Answer>,
    in_async: bool,
    in_generator: bool,
    loop_depth: usize,
    budget: isize,
    tags: Vec<&'static str>,
    uniq_prefix: String,
    has_async_method: bool,
    has_static_async: bool,
    has_ctor_hole: bool,
    awaited_hole: bool,
}

pub const SHOW_PRELUDE: &str = r#"function __show(v: any, d: number = 0, seen: any[] = []): string {
  if (v === null) return "null";
  const t = typeof v;
  if (t === "undefined") return "undefined";
  if (t === "number") return Object.is(v, -0) ? "-0" : String(v);
  if (t === "string") return JSON.stringify(v);
  if (t === "boolean") return String(v);
  if (t === "function") return "fn";
  if (t === "symbol") return "sym";
  if (seen.indexOf(v) >= 0) return "<cycle>";
  if (d > 6) return "<deep>";
  seen.push(v);
  let r: string;
  if (Array.isArray(v)) {
    const parts: string[] = [];
    for (let i = 0; i < v.length; i++) parts.push(__show(v[i], d + 1, seen));
    r = "[" + parts.join(",") + "]";
  } else if (v instanceof Map) {
    const parts: string[] = [];
    for (const e of v.entries()) parts.push(__show(e[0], d + 1, seen) + "=>" + __show(e[1], d + 1, seen));
    r = "Map{" + parts.join(",") + "}";
  } else if (v instanceof Set) {
    const parts: string[] = [];
    for (const e of v.values()) parts.push(__show(e, d + 1, seen));
    r = "Set{" + parts.join(",") + "}";
  } else {
    const ks = Object.keys(v);
    const parts: string[] = [];
    for (const k of ks) parts.push(k + ":" + __show(v[k], d + 1, seen));
    r = "{" + parts.join(",") + "}";
  }
  seen.pop();
  return r;
}"#;

pub fn hole_prelude(variant: HoleVariant, answers: &BTreeMap<String, Answer>) -> String {
    match variant {
        HoleVariant::Order => {
            "import { order } from \"tsrun:host\";\nconst __h = (k: number): any => order({ k: k });\nconst __hm: any = order;\nconst __hr = (p: any): any => order(p);".to_string()
        }
        HoleVariant::OrderDirect => "import { order as __h } from \"tsrun:host\";\nconst __hm: any = __h;\nconst __hr: any = __h;".to_string(),
        HoleVariant::Sync | HoleVariant::Promise => {
            // table-driven stub: identical data, no suspension
            let mut s = String::from("const __h = (k: number): any => {\n  switch (k) {\n");
            for (k, a) in answers {
                let arm = match (variant, a) {
                    (HoleVariant::Sync, Answer::Value(v)) | (HoleVariant::Sync, Answer::DeferValue(v)) => {
                        format!("return {};", v)
                    }
                    (_, Answer::Undefined) => "return undefined;".to_string(),
                    (HoleVariant::Sync, Answer::Error(m)) => {
                        format!("throw {};", json!(format!("TypeError: {}", m)))
                    }
                    (HoleVariant::Sync, Answer::DeferReject(m)) => format!("throw {};", json!(m)),
                    (_, Answer::Value(v)) | (_, Answer::DeferValue(v)) => {
                        format!("return Promise.resolve({});", v)
                    }
                    (_, Answer::Error(m)) => {
                        format!("return Promise.reject({});", json!(format!("TypeError: {}", m)))
                    }
                    (_, Answer::DeferReject(m)) => format!("return Promise.reject({});", json!(m)),
                };
                s.push_str(&format!("    case {}: {}\n", k, arm));
            }
            s.push_str("    default: return null;\n  }\n};\nconst __hm = (p: any): any => __h(p.k);\nconst __hr = (p: any): any => { p.resolve(p.k * 10 + 2); return null; };");
            s
        }
    }
}

impl<'a> Gen<'a> {
    pub fn new(rng: &'a mut Rng, cfg: GenCfg, uniq_prefix: &str) -> Gen<'a> {
        let holes = cfg.holes;
        let budget = cfg.size as isize;
        Gen {
            rng,
            cfg,
            scopes: vec![Vec::new()],
            counter: 0,
            holes_left: holes,
            hole_id: 0,
            answers: BTreeMap::new(),
            in_async: false,
            in_generator: false,
            loop_depth: 0,
            budget,
            tags: Vec::new(),
            uniq_prefix: uniq_prefix.to_string(),
            has_async_method: false,
            has_static_async: false,
            has_ctor_hole: false,
            awaited_hole: false,
        }
    }

    fn fresh(&mut self, p: &str) -> String {
        self.counter += 1;
        if self.cfg.f_long_names && self.counter % 3 == 0 {
            // identifiers far beyond any small-string / interning threshold
            return format!("{}{}{}_{}", self.uniq_prefix, p, self.counter, "long_descriptive_identifier_segment_".repeat(3));
        }
        format!("{}{}{}", self.uniq_prefix, p, self.counter)
    }

    fn vars_of(&self, ty: Ty) -> Vec<Var> {
        self.scopes
            .iter()
            .flat_map(|s| s.iter())
            .filter(|v| v.ty == ty)
            .cloned()
            .collect()
    }
    fn pick_var(&mut self, ty: Ty) -> Option<Var> {
        let vs = self.vars_of(ty);
        if vs.is_empty() {
            None
        } else {
            Some(vs[self.rng.below(vs.len())].clone())
        }
    }
    fn pick_mut_var(&mut self, ty: Ty) -> Option<Var> {
        let vs: Vec<Var> = self.vars_of(ty).into_iter().filter(|v| v.mutable).collect();
        if vs.is_empty() {
            None
        } else {
            Some(vs[self.rng.below(vs.len())].clone())
        }
    }
    fn declare(&mut self, name: &str, ty: Ty, mutable: bool) {
        if let Some(s) = self.scopes.last_mut() {
            s.push(Var {
                name: name.to_string(),
                ty,
                mutable,
            });
        }
    }
    fn tag(&mut self, t: &'static str) {
        if !self.tags.contains(&t) {
            self.tags.push(t);
        }
    }

    // ───────────── holes ─────────────

    fn hole(&mut self) -> Option<String> {
        self.awaited_hole = true;
        let r = self.hole_raw(false).map(|h| format!("(await {})", h));
        self.awaited_hole = false;
        r
    }

    /// A hole call without `await`. `immediate_only`: the answer must be a plain value or an
    /// error (used where the program reads the result synchronously).
    fn hole_raw(&mut self, immediate_only: bool) -> Option<String> {
        if !self.in_async || self.holes_left == 0 {
            return None;
        }
        self.holes_left -= 1;
        self.hole_id += 1;
        let k = self.hole_id;
        let r = self.rng.below(100);
        let ans = if r >= 96 {
            Answer::Undefined
        } else if immediate_only {
            if self.cfg.hole_errors && r < 15 {
                Answer::Error(format!("E{}", k))
            } else {
                Answer::Value(json!(k * 10 + 5))
            }
        } else if self.cfg.hole_errors && r < 12 {
            Answer::Error(format!("E{}", k))
        } else if self.cfg.hole_deferred && r < 40 {
            Answer::DeferValue(json!(k * 10 + 1))
        } else if self.cfg.hole_deferred && self.cfg.hole_errors && self.cfg.hole_defer_reject && r < 47 && self.awaited_hole {
            // (a deferred rejection is only equivalent to the stub's throw when the hole is
            // awaited on the spot; a kept promise that is rejected later is not)
            Answer::DeferReject(format!("R{}", k))
        } else {
            Answer::Value(json!(k * 10 + 3))
        };
        self.answers.insert(k.to_string(), ans);
        self.tag("hole");
        Some(format!("__h({})", k))
    }

    // ───────────── expressions ─────────────

    /// Generate a sub-expression that will be printed inside a synchronous callback:
    /// no `await` may appear there.
    fn sync_num(&mut self, d: usize) -> String {
        let sa = self.in_async;
        self.in_async = false;
        let r = self.num(d);
        self.in_async = sa;
        r
    }
    fn sync_str(&mut self, d: usize) -> String {
        let sa = self.in_async;
        self.in_async = false;
        let r = self.str_(d);
        self.in_async = sa;
        r
    }

    fn small(&mut self) -> i64 {
        *self.rng.pick(&[0i64, 1, 2, 3, 4, 5, 7, 10, 13, 42, 100, -1, -3])
    }

    fn num(&mut self, d: usize) -> String {
        if d == 0 || self.rng.chance(0.3) {
            if self.rng.chance(0.6)
                && let Some(v) = self.pick_var(Ty::Num)
            {
                return v.name;
            }
            return format!("{}", self.small());
        }
        let d = d - 1;
        loop {
            match self.rng.below(29) {
                26 => {
                    if self.in_async
                        && let Some(f) = self.pick_var(Ty::SFun)
                    {
                        self.tag("sync-suspending-call");
                        return format!("{}({})", f.name, self.num(d));
                    }
                }
                27 => {
                    if self.in_async && self.has_ctor_hole {
                        self.tag("ctor-hole-new");
                        let c = self.uniq_prefix.clone();
                        return format!("(Number(new {}C({}).h) || 0)", c, self.num(d));
                    }
                }
                28 => {
                    if self.in_async
                        && let Some(h) = self.pick_var(Ty::HVal)
                    {
                        self.tag("await-hval");
                        return format!("(Number(await {}) || 0)", h.name);
                    }
                }
                24 => {
                    if let Some(a) = self.pick_var(Ty::OArr) {
                        return format!("{}.length", a.name);
                    }
                }
                25 => {
                    if let Some(a) = self.pick_var(Ty::OArr) {
                        return format!("(Number(({}[{}] ?? {{}}).v) || 0)", a.name, self.rng.below(3));
                    }
                }
                22 => {
                    if self.in_async
                        && self.has_async_method
                        && let Some(i) = self.pick_var(Ty::Inst)
                    {
                        self.tag("async-method-call");
                        return format!("(await {}.am({}))", i.name, self.num(d));
                    }
                }
                23 => {
                    if self.in_async && self.has_static_async {
                        self.tag("static-async-call");
                        let c = self.uniq_prefix.clone();
                        return format!("(await {}K.sm({}))", c, self.num(d));
                    }
                }
                0 => return format!("({} + {})", self.num(d), self.num(d)),
                1 => return format!("(({} * {}) % 1000)", self.num(d), self.num(d)),
                2 => return format!("({} - {})", self.num(d), self.num(d)),
                3 => {
                    if let Some(a) = self.pick_var(Ty::Arr) {
                        return format!("{}.length", a.name);
                    }
                }
                4 => {
                    if let Some(a) = self.pick_var(Ty::Arr) {
                        return format!("(Number({}[{}]) || 0)", a.name, self.rng.below(4));
                    }
                }
                5 => {
                    if let Some(o) = self.pick_var(Ty::Obj) {
                        return format!("(Number({}.x) || 0)", o.name);
                    }
                }
                6 => {
                    if let Some(f) = self.pick_var(Ty::Fun) {
                        return format!("{}({})", f.name, self.num(d));
                    }
                }
                7 => {
                    if let Some(i) = self.pick_var(Ty::Inst) {
                        return format!("{}.m({})", i.name, self.num(d));
                    }
                }
                8 => {
                    if self.cfg.f_getter
                        && let Some(i) = self.pick_var(Ty::Inst)
                    {
                        return format!("{}.g", i.name);
                    }
                }
                9 => return format!("Math.max({}, {})", self.num(d), self.num(d)),
                10 => {
                    if let Some(s) = self.pick_var(Ty::Str) {
                        return format!("{}.length", s.name);
                    }
                }
                11 => {
                    if let Some(m) = self.pick_var(Ty::Map) {
                        return format!("({}.get({}) ?? {}.size)", m.name, self.rng.below(4), m.name);
                    }
                }
                12 => {
                    if let Some(a) = self.pick_var(Ty::Arr) {
                        self.tag("reduce");
                        return format!(
                            "{}.reduce((p: any, c: any) => (Number(p) || 0) + (Number(c) || 0), {})",
                            a.name,
                            self.num(0)
                        );
                    }
                }
                13 => {
                    if let Some(a) = self.pick_var(Ty::Arr) {
                        return format!("{}.indexOf({})", a.name, self.num(0));
                    }
                }
                14 => {
                    if let Some(h) = self.hole() {
                        return h;
                    }
                }
                15 => {
                    if let Some(h) = self.hole() {
                        return h;
                    }
                }
                16 => return format!("({} > {} ? {} : {})", self.num(d), self.num(d), self.num(d), self.num(d)),
                17 => {
                    if let Some(t) = self.pick_var(Ty::Set) {
                        return format!("({}.has({}) ? 1 : {}.size)", t.name, self.small(), t.name);
                    }
                }
                18 => {
                    if self.cfg.f_gen
                        && let Some(g) = self.pick_var(Ty::GenFn)
                    {
                        self.tag("gen-next");
                        return format!("(Number({}({}).next().value) || 0)", g.name, self.rng.below(4));
                    }
                }
                19 => {
                    if self.in_async
                        && let Some(f) = self.pick_var(Ty::AFun)
                    {
                        self.tag("async-call");
                        return format!("(await {}({}))", f.name, self.num(d));
                    }
                }
                20 => {
                    if self.cfg.f_json
                        && let Some(o) = self.pick_var(Ty::Obj)
                    {
                        return format!("JSON.stringify({}).length", o.name);
                    }
                }
                _ => return format!("(({} | 0) & 255)", self.num(d)),
            }
        }
    }

    fn str_(&mut self, d: usize) -> String {
        if d == 0 || self.rng.chance(0.3) {
            if self.rng.chance(0.6)
                && let Some(v) = self.pick_var(Ty::Str)
            {
                return v.name;
            }
            return format!("\"{}\"", self.rng.pick(&["a", "bc", "x-y", "", "Zed", "ab ab", "q1w2"]));
        }
        let d = d - 1;
        loop {
            match self.rng.below(15) {
                14 => {
                    if self.cfg.f_template {
                        self.tag("tagged-template");
                        return format!("__tag`a${{{}}}b${{{}}}c`", self.num(d), self.str_(d));
                    }
                }
                0 => {
                    if self.cfg.f_template {
                        return format!("`${{{}}}-${{{}}}`", self.num(d), self.str_(d));
                    }
                }
                1 => return format!("{}.toUpperCase()", self.str_(d)),
                2 => return format!("{}.slice({}, {})", self.str_(d), self.rng.below(3), 2 + self.rng.below(4)),
                3 => {
                    if self.cfg.f_string_natives {
                        self.tag("replace-fn");
                        return format!("{}.replace(\"a\", (m: string) => m + {})", self.str_(d), self.sync_str(0));
                    }
                }
                4 => {
                    if let Some(a) = self.pick_var(Ty::Arr) {
                        return format!("{}.join(\"-\")", a.name);
                    }
                }
                5 => {
                    if self.cfg.f_json
                        && let Some(o) = self.pick_var(Ty::Obj)
                    {
                        self.tag("json");
                        return format!("JSON.stringify({})", o.name);
                    }
                }
                6 => return format!("String({})", self.num(d)),
                7 => {
                    if self.cfg.f_string_natives {
                        return format!("{}.padStart({}, \"*\")", self.str_(d), self.rng.below(8));
                    }
                }
                8 => {
                    if self.cfg.f_string_natives {
                        return format!("{}.split(\"\").reverse().join(\"\")", self.str_(d));
                    }
                }
                9 => return format!("({} + {})", self.str_(d), self.str_(d)),
                10 => {
                    if let Some(o) = self.pick_var(Ty::Obj) {
                        return format!("Object.keys({}).join(\",\")", o.name);
                    }
                }
                11 => {
                    if let Some(h) = self.hole() {
                        return format!("String({})", h);
                    }
                }
                12 => return format!("(typeof {})", self.num(0)),
                _ => {
                    if self.cfg.f_string_natives {
                        return format!("{}.repeat({})", self.str_(0), self.rng.below(3));
                    }
                }
            }
        }
    }

    fn arr(&mut self, d: usize) -> String {
        if d == 0 || self.rng.chance(0.25) {
            if self.rng.chance(0.5)
                && let Some(v) = self.pick_var(Ty::Arr)
            {
                return format!("{}.slice()", v.name);
            }
            let n = self.rng.below(5);
            let items: Vec<String> = (0..n).map(|_| self.num(0)).collect();
            return format!("[{}]", items.join(", "));
        }
        let d = d - 1;
        loop {
            match self.rng.below(15) {
                0 => {
                    let n = 1 + self.rng.below(4);
                    let items: Vec<String> = (0..n).map(|_| self.num(d)).collect();
                    return format!("[{}]", items.join(", "));
                }
                1 => {
                    self.tag("map");
                    return format!("{}.map((x: any) => (Number(x) || 0) + {})", self.arr(d), self.sync_num(d));
                }
                2 => {
                    self.tag("filter");
                    return format!("{}.filter((x: any) => (Number(x) || 0) % 2 === {})", self.arr(d), self.rng.below(2));
                }
                3 => return format!("[...{}, {}]", self.arr(d), self.num(d)),
                4 => return format!("{}.concat({})", self.arr(d), self.arr(d)),
                5 => {
                    if let Some(t) = self.pick_var(Ty::Set) {
                        return format!("Array.from({})", t.name);
                    }
                }
                6 => {
                    if let Some(o) = self.pick_var(Ty::Obj) {
                        return format!("Object.keys({}).map((k: string) => k.length)", o.name);
                    }
                }
                7 => {
                    self.tag("flatMap");
                    return format!("{}.flatMap((x: any) => [x, {}])", self.arr(d), self.sync_num(0));
                }
                8 => {
                    if self.cfg.f_gen
                        && let Some(g) = self.pick_var(Ty::GenFn)
                    {
                        self.tag("spread-gen");
                        return format!("[...{}({})]", g.name, self.rng.below(5));
                    }
                }
                9 => {
                    self.tag("array-from");
                    return format!(
                        "Array.from({{ length: {} }}, (_: any, i: number) => i * {})",
                        self.rng.below(5),
                        self.sync_num(0)
                    );
                }
                10 => {
                    if self.cfg.f_sort {
                        self.tag("sort");
                        return format!(
                            "{}.sort((x: any, y: any) => (Number(y) || 0) - (Number(x) || 0))",
                            self.arr(d)
                        );
                    }
                }
                11 => {
                    if let Some(m) = self.pick_var(Ty::Map) {
                        return format!("Array.from({}.keys())", m.name);
                    }
                }
                12 => {
                    if self.cfg.f_string_natives {
                        return format!("{}.split(\"\").map((c: string) => c.charCodeAt(0))", self.str_(d));
                    }
                }
                13 => {
                    if let Some(o) = self.pick_var(Ty::Obj) {
                        return format!("Object.entries({}).map((e: any) => e[0].length)", o.name);
                    }
                }
                _ => return format!("{}.slice({})", self.arr(d), self.rng.below(3)),
            }
        }
    }

    /// Callback-taking and copying natives crossed with results that are fresh objects: every
    /// template yields an array of `{ v: … }` objects whose elements were, at some point, held only
    /// by the native that produced them.
    fn native_matrix(&mut self, d: usize) -> String {
        let a = self.oarr(d);
        let n = self.sync_num(0);
        let s = self.sync_str(0);
        let p = self.uniq_prefix.clone();
        let k = self.cfg.force_matrix.unwrap_or_else(|| self.rng.below(MATRIX_N));
        self.tag("native-matrix");
        if k >= 24 {
            let gated = match k {
                39 => self.cfg.f_proxy,
                46 | 78 | 92 | 93 => self.cfg.f_symbol,
                61 | 62 | 87 | 88 | 89 => self.cfg.f_gen,
                63 => self.cfg.f_class,
                _ => true,
            };
            if gated && let Some(t) = MATRIX_EXT.get(k - 24) {
                self.tag("native-matrix-ext");
                return t.replace("@A", &a).replace("@N", &n).replace("@S", &s);
            }
        }
        match k {
            0 => format!("{a}.reduceRight((p: any, c: any) => p.concat([{{ v: (Number(c.v) || 0) + p.length }}]), [])"),
            1 => format!("[{a}.reduceRight((p: any, c: any) => ({{ v: (Number(p.v) || 0) + (Number(c.v) || 0), prev: [p.v] }}), {{ v: {n} }})]"),
            2 => format!("[{a}.reduce((p: any, c: any) => ({{ v: (Number(p.v) || 0) + (Number(c.v) || 0), l: [c] }}), {{ v: {n} }})]"),
            3 => format!("[{a}.findLast((o: any) => (Number(o.v) || 0) >= {n}) ?? {{ v: -1 }}]"),
            4 => format!("{a}.toSorted((x: any, y: any) => (Number(x.v) || 0) - (Number(y.v) || 0))"),
            5 => format!("{a}.toReversed().toSpliced(0, 1, {{ v: {n} }}).with(0, {{ v: 5 }})"),
            6 => format!("[[{{ v: {n} }}], {a}].flat()"),
            7 => format!("Array.from({a}, (o: any) => ({{ v: o.v, c: [o] }}))"),
            8 => format!("Array.from(new Set({a}).values(), (o: any) => ({{ v: o.v }}))"),
            9 => format!("Object.values(Object.fromEntries({a}.map((o: any, i: number) => [\"k\" + i, {{ v: o.v }}])))"),
            10 => format!("JSON.parse(JSON.stringify({a}), (k: string, v: any) => (v && typeof v === \"object\" && !Array.isArray(v)) ? {{ ...v, r: 1 }} : v)"),
            11 => format!("JSON.parse(JSON.stringify({a}, (k: string, v: any) => typeof v === \"number\" ? {{ n: v }} : v))"),
            12 => format!("Array.from(new Map({a}.map((o: any, i: number) => [{{ key: i }}, {{ v: o.v }}])).entries()).map((e: any) => ({{ v: e[1].v, k: e[0].key }}))"),
            13 => format!("[...new Set({a}.map((o: any) => ({{ v: o.v }})))]"),
            14 => format!("Array.from({s}.matchAll(/[a-z]/g), (m: any) => ({{ v: m.index, s: m[0] }}))"),
            15 => format!("[{{ v: {s}.replace(/[a-z]/g, (m: string) => JSON.stringify({{ m: m }})).length }}, {{ v: {s}.replaceAll(\"a\", (m: string) => String([{{ q: m }}].length)).length }}]"),
            16 => format!("structuredClone({a})"),
            17 => format!("Object.entries(Object.groupBy({a}, (o: any) => (Number(o.v) || 0) % 2 === 0 ? \"e\" : \"o\")).map((e: any) => ({{ v: e[1].length, k: e[0] }}))"),
            18 => format!("(() => {{ const out: any[] = []; new Map({a}.map((o: any, i: number) => [i, o])).forEach((val: any, key: any) => {{ out.push({{ v: val.v, key: key }}); }}); return out; }})()"),
            19 => format!("(() => {{ const out: any[] = []; new Set({a}).forEach((val: any) => {{ out.push({{ v: val.v }}); }}); return out; }})()"),
            20 if self.cfg.f_gen => format!("(() => {{ const [x, y = {{ v: -1 }}, ...rest]: any = (function* (): any {{ for (const o of {a}) {{ yield {{ v: o.v }}; }} }})(); return [x ?? {{ v: -2 }}, y, ...rest]; }})()"),
            21 if self.cfg.f_class && self.cfg.f_gen => format!("[...new {p}G({n}).walk()].map((x: any) => ({{ v: x }}))"),
            22 if self.cfg.f_class && self.cfg.f_gen => format!("(() => {{ const it: any = {p}mkwalk({n}); const junk: any[] = [{{}}, {{}}, {{}}, [1, 2]]; const r: any[] = [it.next().value, junk.length, it.next().value, it.next().value]; return r.map((x: any) => ({{ v: x }})); }})()"),
            _ => format!("{a}.map((o: any) => ({{ ...o }})).filter((o: any, i: number) => i % 2 === 0 || {a}.some((q: any) => q.v === o.v))"),
        }
    }

    /// Arrays of fresh objects: the elements are reachable only through the array (and, while a
    /// native runs, only through that native's own guards) — the shape a missing guard bites.
    fn oarr(&mut self, d: usize) -> String {
        if d == 0 || self.rng.chance(0.25) {
            if self.rng.chance(0.5)
                && let Some(v) = self.pick_var(Ty::OArr)
            {
                return format!("{}.slice()", v.name);
            }
            let n = 1 + self.rng.below(4);
            let items: Vec<String> = (0..n).map(|_| format!("{{ v: {} }}", self.sync_num(0))).collect();
            return format!("[{}]", items.join(", "));
        }
        let d = d - 1;
        loop {
            if self.cfg.force_matrix.is_some() && self.rng.chance(0.7) {
                return self.native_matrix(d);
            }
            match self.rng.below(22) {
                16..=21 => return self.native_matrix(d),
                0 => {
                    self.tag("omap");
                    return format!("{}.map((o: any) => ({{ v: (Number(o.v) || 0) + {}, w: [o] }}))", self.oarr(d), self.sync_num(0));
                }
                1 => {
                    self.tag("oflatMap");
                    return format!("{}.flatMap((o: any) => [{{ v: o.v }}, {{ v: {}, p: {{ q: o.v }} }}])", self.oarr(d), self.sync_num(0));
                }
                2 => {
                    self.tag("ofilter");
                    return format!("{}.filter((o: any) => (Number(o.v) || 0) % 2 === {})", self.oarr(d), self.rng.below(2));
                }
                3 => {
                    self.tag("oreduce");
                    return format!("{}.reduce((p: any, c: any) => p.concat([{{ v: (Number(c.v) || 0) + p.length }}]), [])", self.oarr(d));
                }
                4 => {
                    if self.cfg.f_sort {
                        self.tag("osort");
                        return format!("{}.sort((a: any, b: any) => (Number(b.v) || 0) - (Number(a.v) || 0))", self.oarr(d));
                    }
                }
                5 => {
                    self.tag("oarray-from");
                    return format!("Array.from({{ length: {} }}, (_: any, i: number) => ({{ v: i * {}, t: \"s\" + i }}))", 1 + self.rng.below(4), self.sync_num(0));
                }
                6 => {
                    if let Some(o) = self.pick_var(Ty::Obj) {
                        self.tag("oentries");
                        return format!("Object.entries({}).map((e: any) => ({{ v: e[0].length, e: e[1] }}))", o.name);
                    }
                }
                7 => {
                    if self.cfg.f_json {
                        self.tag("ojson");
                        return format!("JSON.parse(JSON.stringify({}))", self.oarr(d));
                    }
                }
                8 => return format!("[...{}, {{ v: {} }}]", self.oarr(d), self.num(d)),
                9 => return format!("{}.concat({})", self.oarr(d), self.oarr(d)),
                10 => {
                    if self.cfg.f_mapset {
                        self.tag("omap-values");
                        return format!("Array.from(new Map<any, any>({}.map((o: any, i: number) => [i, {{ v: o.v }}])).values())", self.oarr(d));
                    }
                }
                11 => {
                    if self.cfg.f_gen {
                        self.tag("ogen");
                        return format!("[...(function* (): any {{ for (const o of {}) {{ yield {{ v: (Number(o.v) || 0) + 1 }}; }} }})()]", self.oarr(d));
                    }
                }
                12 => {
                    if let Some(a) = self.pick_var(Ty::Arr) {
                        return format!("{}.map((x: any) => ({{ v: x }}))", a.name);
                    }
                }
                13 => {
                    self.tag("ofind");
                    return format!("[{}.find((o: any) => (Number(o.v) || 0) >= {}) ?? {{ v: -1 }}]", self.oarr(d), self.sync_num(0));
                }
                14 => {
                    if self.cfg.f_string_natives {
                        self.tag("osplit");
                        return format!("{}.split(\"\").map((c: string, i: number) => ({{ v: i, c: c }}))", self.str_(0));
                    }
                }
                _ => return format!("{}.slice({})", self.oarr(d), self.rng.below(2)),
            }
        }
    }

    fn obj(&mut self, d: usize) -> String {
        if d == 0 || self.rng.chance(0.25) {
            return format!("{{ x: {}, y: {} }}", self.num(0), self.num(0));
        }
        let d = d - 1;
        loop {
            match self.rng.below(10) {
                0 => return format!("{{ x: {}, y: {}, s: {} }}", self.num(d), self.num(d), self.str_(d)),
                1 => {
                    if let Some(o) = self.pick_var(Ty::Obj) {
                        return format!("{{ ...{}, z: {} }}", o.name, self.num(d));
                    }
                }
                2 => {
                    if let Some(o) = self.pick_var(Ty::Obj) {
                        self.tag("assign");
                        return format!("Object.assign({{}}, {}, {{ w: {} }})", o.name, self.num(d));
                    }
                }
                3 => {
                    if self.cfg.f_json
                        && let Some(o) = self.pick_var(Ty::Obj)
                    {
                        self.tag("json-roundtrip");
                        return format!("JSON.parse(JSON.stringify({}))", o.name);
                    }
                }
                4 => {
                    if let Some(o) = self.pick_var(Ty::Obj) {
                        self.tag("fromEntries");
                        return format!("Object.fromEntries(Object.entries({}))", o.name);
                    }
                }
                5 => return format!("{{ x: {}, nested: {{ a: {}, o: {} }} }}", self.num(d), self.arr(d), self.obj(d)),
                6 => {
                    if self.cfg.f_getter {
                        self.tag("obj-getter");
                        return format!("{{ get g() {{ return {}; }}, x: {} }}", self.sync_num(0), self.num(d));
                    }
                }
                7 => {
                    if self.cfg.f_json {
                        self.tag("json-reviver");
                        return format!(
                            "JSON.parse({}, (k: string, v: any) => typeof v === \"number\" ? v + {} : v)",
                            json!(r#"{"x":1,"l":[1,2,{"q":3}],"s":"t"}"#),
                            self.sync_num(0)
                        );
                    }
                }
                8 => {
                    let k = self.str_(0);
                    return format!("{{ [{}]: {}, x: {} }}", k, self.num(d), self.num(d));
                }
                _ => return format!("{{ x: {}, a: {} }}", self.num(d), self.arr(d)),
            }
        }
    }

    fn cond(&mut self) -> String {
        match self.rng.below(5) {
            0 => format!("{} > {}", self.num(1), self.num(1)),
            1 => format!("({} % 2) === 0", self.num(1)),
            2 => {
                if let Some(s) = self.pick_var(Ty::Str) {
                    format!("{}.length > {}", s.name, self.rng.below(4))
                } else {
                    "true".into()
                }
            }
            3 => {
                if let Some(a) = self.pick_var(Ty::Arr) {
                    format!("{}.includes({})", a.name, self.small())
                } else {
                    "false".into()
                }
            }
            _ => format!("{} !== {}", self.num(1), self.num(1)),
        }
    }

    // ───────────── statements ─────────────

    fn block(&mut self, n: usize, depth: usize) -> Vec<Node> {
        self.scopes.push(Vec::new());
        let mut out = Vec::new();
        for _ in 0..n {
            if self.budget <= 0 {
                break;
            }
            out.push(self.stmt(depth));
        }
        self.scopes.pop();
        out
    }

    fn decl(&mut self, d: usize) -> Node {
        if self.scopes.len() > 1 && self.rng.chance(0.12) {
            // shadow an outer variable in this inner block
            let cur: Vec<String> = self.scopes.last().map(|s| s.iter().map(|v| v.name.clone()).collect()).unwrap_or_default();
            let outer: Vec<Var> = self.scopes[..self.scopes.len() - 1]
                .iter()
                .flat_map(|s| s.iter())
                .filter(|v| matches!(v.ty, Ty::Num | Ty::Str) && !cur.contains(&v.name))
                .cloned()
                .collect();
            if !outer.is_empty() {
                let v = outer[self.rng.below(outer.len())].clone();
                let mut e = if v.ty == Ty::Num { self.num(1) } else { self.str_(1) };
                if e.contains(&v.name) {
                    e = if v.ty == Ty::Num { "77".into() } else { "\"sh\"".into() };
                }
                self.declare(&v.name, v.ty, true);
                self.tag("shadow");
                return Node::leaf(format!("let {}: any = {};", v.name, e));
            }
        }
        let kw_mut = self.rng.chance(0.6);
        let kw = if kw_mut { "let" } else { "const" };
        let mut choices = vec![Ty::Num, Ty::Num, Ty::Str, Ty::Arr, Ty::Arr, Ty::Obj, Ty::Obj, Ty::OArr, Ty::OArr];
        if self.cfg.f_mapset {
            choices.push(Ty::Map);
            choices.push(Ty::Set);
        }
        if self.cfg.f_closure {
            choices.push(Ty::Fun);
        }
        if self.cfg.f_class {
            choices.push(Ty::Inst);
        }
        let ty = *self.rng.pick(&choices);
        match ty {
            Ty::Num => {
                let n = self.fresh("n");
                let e = self.num(d);
                self.declare(&n, Ty::Num, kw_mut);
                Node::leaf(format!("{} {}: any = {};", kw, n, e))
            }
            Ty::Str => {
                let n = self.fresh("s");
                let e = self.str_(d);
                self.declare(&n, Ty::Str, kw_mut);
                Node::leaf(format!("{} {}: any = {};", kw, n, e))
            }
            Ty::Arr => {
                let n = self.fresh("a");
                let e = self.arr(d);
                self.declare(&n, Ty::Arr, kw_mut);
                Node::leaf(format!("{} {}: any = {};", kw, n, e))
            }
            Ty::OArr => {
                let n = self.fresh("q");
                let e = self.oarr(d.max(1));
                self.declare(&n, Ty::OArr, kw_mut);
                Node::leaf(format!("{} {}: any = {}.slice(0, 16);", kw, n, e))
            }
            Ty::Obj => {
                let n = self.fresh("o");
                let e = if self.cfg.f_proxy && self.rng.chance(0.15) && !self.vars_of(Ty::Obj).is_empty() {
                    self.tag("proxy");
                    let t = self.pick_var(Ty::Obj).map(|v| v.name).unwrap_or_else(|| "{}".into());
                    format!(
                        "new Proxy({}, {{ get(t: any, k: any, r: any) {{ if (typeof k === \"string\" && k.length < 3) __log.push(\"pg:\" + k); return Reflect.get(t, k, r); }}, ownKeys(t: any) {{ return Reflect.ownKeys(t); }} }})",
                        t
                    )
                } else {
                    self.obj(d)
                };
                self.declare(&n, Ty::Obj, kw_mut);
                Node::leaf(format!("{} {}: any = {};", kw, n, e))
            }
            Ty::Map => {
                let n = self.fresh("m");
                let pairs: Vec<String> = (0..self.rng.below(4))
                    .map(|i| format!("[{}, {}]", i, self.num(1)))
                    .collect();
                self.declare(&n, Ty::Map, kw_mut);
                self.tag("map-set");
                Node::leaf(format!("{} {}: any = new Map<any, any>([{}]);", kw, n, pairs.join(", ")))
            }
            Ty::Set => {
                let n = self.fresh("t");
                let e = self.arr(1);
                self.declare(&n, Ty::Set, kw_mut);
                Node::leaf(format!("{} {}: any = new Set<any>({});", kw, n, e))
            }
            Ty::Fun => {
                let n = self.fresh("f");
                let p = self.fresh("p");
                // closure capturing outer variables
                self.scopes.push(vec![Var {
                    name: p.clone(),
                    ty: Ty::Num,
                    mutable: false,
                }]);
                let (sa, sg) = (self.in_async, self.in_generator);
                self.in_async = false;
                self.in_generator = false;
                let body = self.num(d.max(1));
                self.in_async = sa;
                self.in_generator = sg;
                self.scopes.pop();
                self.declare(&n, Ty::Fun, false);
                self.tag("closure");
                Node::leaf(format!("const {} = ({}: any): any => {};", n, p, body))
            }
            _ => {
                let n = self.fresh("i");
                let c = self.uniq_prefix.clone() + "K";
                let e = format!("new {}({})", c, self.num(d));
                self.declare(&n, Ty::Inst, false);
                Node::leaf(format!("const {}: any = {};", n, e))
            }
        }
    }

    fn mutate(&mut self) -> Option<Node> {
        for _ in 0..6 {
            match self.rng.below(17) {
                0 => {
                    if let Some(v) = self.pick_mut_var(Ty::Num) {
                        return Some(Node::leaf(format!("{} = {};", v.name, self.num(2))));
                    }
                }
                1 => {
                    if let Some(v) = self.pick_mut_var(Ty::Str) {
                        return Some(Node::leaf(format!("{} = ({} + {}).slice(0, 40);", v.name, v.name, self.str_(1))));
                    }
                }
                2 => {
                    if let Some(a) = self.pick_var(Ty::Arr) {
                        return Some(Node::leaf(format!("{}.push({});", a.name, self.num(2))));
                    }
                }
                3 => {
                    if let Some(a) = self.pick_var(Ty::Arr) {
                        return Some(Node::leaf(format!("{}[{}] = {};", a.name, self.rng.below(5), self.num(2))));
                    }
                }
                4 => {
                    if let Some(o) = self.pick_var(Ty::Obj) {
                        return Some(Node::leaf(format!("{}.x = {};", o.name, self.num(2))));
                    }
                }
                5 => {
                    if let Some(o) = self.pick_var(Ty::Obj) {
                        return Some(Node::leaf(format!("{}[\"k\" + {}] = {};", o.name, self.rng.below(3), self.obj(0))));
                    }
                }
                6 => {
                    if let Some(o) = self.pick_var(Ty::Obj) {
                        return Some(Node::leaf(format!("delete {}.y;", o.name)));
                    }
                }
                7 => {
                    if let Some(m) = self.pick_var(Ty::Map) {
                        return Some(Node::leaf(format!("{}.set({}, {});", m.name, self.rng.below(5), self.obj(0))));
                    }
                }
                8 => {
                    if let Some(t) = self.pick_var(Ty::Set) {
                        return Some(Node::leaf(format!("{}.add({});", t.name, self.num(1))));
                    }
                }
                9 => {
                    if let Some(m) = self.pick_var(Ty::Map) {
                        return Some(Node::leaf(format!("{}.delete({});", m.name, self.rng.below(4))));
                    }
                }
                10 => {
                    if self.cfg.f_sort
                        && let Some(a) = self.pick_var(Ty::Arr)
                    {
                        return Some(Node::leaf(format!("{}.sort();", a.name)));
                    }
                }
                11 => {
                    if let Some(a) = self.pick_var(Ty::Arr) {
                        return Some(Node::leaf(format!("{}.reverse();", a.name)));
                    }
                }
                12 => {
                    if let Some(a) = self.pick_var(Ty::Arr) {
                        return Some(Node::leaf(format!("{}.splice({}, 1);", a.name, self.rng.below(3))));
                    }
                }
                13 => {
                    if let Some(i) = self.pick_var(Ty::Inst) {
                        return Some(Node::leaf(format!("{}.v = {};", i.name, self.num(2))));
                    }
                }
                14 => {
                    if let Some(a) = self.pick_var(Ty::Arr) {
                        self.tag("forEach");
                        if let Some(n) = self.pick_mut_var(Ty::Num) {
                            return Some(Node::leaf(format!(
                                "{}.forEach((x: any, i: number) => {{ {} = (Number({}) || 0) + (Number(x) || 0) + i; }});",
                                a.name, n.name, n.name
                            )));
                        }
                    }
                }
                15 => {
                    if let Some(a) = self.pick_mut_var(Ty::OArr) {
                        return Some(Node::leaf(format!("{} = {}.slice(0, 12);", a.name, self.oarr(2))));
                    }
                }
                _ => {
                    if let Some(a) = self.pick_mut_var(Ty::Arr) {
                        return Some(Node::leaf(format!("{} = {}.slice(0, 12);", a.name, self.arr(2))));
                    }
                }
            }
        }
        None
    }

    fn log_stmt(&mut self) -> Node {
        if self.cfg.f_lib && self.rng.chance(0.4) {
            self.tag("lib-call");
            let n = self.sync_num(0);
            // (the library's mutator `bumpLib` is not called: module state outlives a run on purpose,
            // and checks that reuse an interpreter compare against a fresh one)
            return Node::leaf(match self.rng.below(3) {
                0 => format!("__log.push(\"lib:\" + __kinds({n}) + __kinds(undefined) + __kinds([{n}]));"),
                1 => format!("__log.push(\"lib:\" + JSON.stringify(__mk({n})) + __util.name + __useed.list.length + typeof __ubump);"),
                _ => "__log.push(\"lib:\" + __probe());".to_string(),
            });
        }
        let e = match self.rng.below(4) {
            0 => self.str_(2),
            1 => format!("String({})", self.num(2)),
            2 => {
                if let Some(o) = self.pick_var(Ty::Obj) {
                    format!("__show({})", o.name)
                } else {
                    self.str_(1)
                }
            }
            _ => {
                if let Some(a) = self.pick_var(Ty::Arr) {
                    format!("__show({})", a.name)
                } else {
                    self.str_(1)
                }
            }
        };
        Node::leaf(format!("__log.push({});", e))
    }

    /// Objects that live only in registers, loop variables or half-evaluated expressions while
    /// later sub-expressions allocate: the shapes where a missing or shared register root bites.
    fn regtemp_stmt(&mut self) -> Node {
        self.tag("regtemp");
        let a = self.fresh("ra");
        let b = self.fresh("rb");
        let c = self.fresh("rc");
        let n = self.sync_num(0);
        let m = 2 + self.rng.below(4);
        // (template 12 leaves a block with `break`: quarantined with KF-C14-3 where f_break is off)
        let pick = self.rng.below(14);
        let body = match if pick == 12 && !self.cfg.f_break { 6 } else { pick } {
            0 => format!("for (let {a}: any = {{ v: 0 }}, {b}: any = {{ v: {m} * 2 }}; {a}.v < {b}.v; {a} = {{ v: {a}.v + 1 }}, {b} = {{ v: {b}.v - 1 }}) {{ {c}.push({a}.v + \":\" + {b}.v); }}"),
            1 => format!("for (let {a}: any = {{ n: 0 }}, {b}: any = {a}; {a} && {a}.n < {m}; {b} = {a}, {a} = {{ n: {a}.n + 1, p: [{b}] }}) {{ {c}.push({b}.n + \">\" + {a}.n); }}"),
            2 => format!("let {a}: any = {{ v: {n} }}; let {b}: any = {{ v: 1, l: [{{}}] }}; for (let i = 0; i < {m}; i++) {{ [{a}, {b}] = [{b}, {{ v: {a}.v + i, was: [{a}] }}]; }} {c}.push({a}.v + \"/\" + {b}.v);"),
            3 => format!("let {a}: any; let {b}: any; {a} = {b} = {{ v: {n}, l: [{{}}, {{}}] }}; {a} = {{ v: 1 }}; {c}.push(String({b}.v) + {b}.l.length + {a}.v);"),
            4 => format!("let {a}: any; let {b}: any; const {a}r: any = ({a} = {{ v: {n} }}, {b} = {a}, {a} = {{ v: 2, l: [{{}}] }}, {b}); {c}.push(String({a}r.v) + {a}.v + {b}.v);"),
            5 => format!("const {{ p: {{ q: {a} = {{ v: -1 }}, r: {b} = {{ v: -2, l: [{{}}] }} }} = {{ q: {{ v: 7 }} }} }}: any = {{ get p(): any {{ return {{ q: {{ v: {n}, l: [{{}}] }} }}; }} }}; {c}.push(String({a}.v) + {b}.v);"),
            6 => format!("const {a}: any = [{{ v: {n} }}, [{{}}, {{}}].length, {{ w: [{{ v: 1 }}].map((o: any) => ({{ ...o }})) }}, {{ v: 2 }}]; {c}.push(String({a}[0].v) + {a}[1] + {a}[2].w[0].v + {a}[3].v);"),
            7 => format!("const {a}: any = ((x: any, y: any, z: any) => String(x.v) + y.length + z.v)({{ v: {n} }}, [{{}}, {{}}, {{}}].map((o: any) => [o]), {{ v: [{{}}].length }}); {c}.push({a});"),
            8 => format!("let {a}: any = {{ n: 0 }}; let {b}: any = null; while (({b} = {a}, {a} = {a}.n < {m} ? {{ n: {a}.n + 1, j: [{{}}] }} : null) !== null) {{ {c}.push({b}.n + \"~\" + {a}.n); }}"),
            9 => format!("const {a}: any = ({n} > 1 ? {{ v: {n}, l: [{{}}] }} : {{ v: -1 }}) ?? {{ v: -2 }}; const {b}: any = (null ?? {{ v: [{{}}, {{}}].length }}) && {{ v: {a}.v, k: [{a}] }}; {c}.push(String({a}.v) + {b}.v);"),
            10 => format!("let {a}: any = {{ v: {n} }}; let {b}: any = {a}; {a} = {{ v: 1, prev: [{{}}, {{}}] }}; const {a}2: any = {{ v: 2 }}; {c}.push(String({b}.v) + {a}.v + {a}2.v); {b} = {{ v: 3 }}; {c}.push(String({b}.v) + {a}.prev.length);"),
            11 => format!("const {a}: any = `${{JSON.stringify({{ v: {n} }})}}-${{[{{}}, {{}}].length}}-${{JSON.stringify({{ w: [{{ v: 1 }}] }})}}`; {c}.push({a});"),
            12 => format!("switch (true) {{ case ({{ v: {n} }} as any).v === -12345: {c}.push(\"never\"); break; case [{{}}, {{}}].length === 2: {{ const {a}: any = {{ v: {n} }}; const {b}: any = {a}; {c}.push(String({b}.v)); break; }} default: {c}.push(\"d\"); }}"),
            _ => format!("let {a}: any = {{ v: 0, next: null }}; for (let i = 1, {b}: any = {a}; i < {m}; i++, {b} = {b}.next) {{ {b}.next = {{ v: i, next: null, j: [{{}}] }}; }} let {a}s: string = \"\"; for (let {b}: any = {a}; {b}; {b} = {b}.next) {{ {a}s += {b}.v; }} {c}.push({a}s);"),
        };
        Node::leaf(format!("{{ const {c}: string[] = []; {body} __log.push(\"rt:\" + {c}.join(\",\")); }}"))
    }

    fn stmt(&mut self, depth: usize) -> Node {
        self.budget -= 1;
        let deep = depth < self.cfg.max_depth;
        if self.in_async && self.holes_left >= 2 && self.rng.chance(0.04) {
            // Promise.all over then-derived members whose values are fresh objects, the members
            // being raw holes (host promises settled in any order, or plain values)
            let mut items: Vec<String> = Vec::new();
            while items.len() < 3 {
                match self.hole_raw(false) {
                    Some(h) => items.push(h),
                    None => break,
                }
            }
            if items.len() >= 2 {
                self.tag("promise-all-derived-members");
                let a = self.fresh("a");
                let wrapped: Vec<String> = items.iter().map(|it| format!("Promise.resolve({}).then((v: any) => ({{ n: v, l: [{{}}] }}))", it)).collect();
                return Node::leaf(format!(
                    "{{ const {a}: any = await (async (): Promise<any> => Promise.all([{}]))(); const junk: any[] = [{{}}, {{}}]; __log.push(\"pa:\" + JSON.stringify({a}) + junk.length); }}",
                    wrapped.join(", ")
                ));
            }
        }
        for _ in 0..8 {
            let r = self.rng.below(100);
            match r {
                0..=22 => return self.decl(2),
                23..=24 => return self.regtemp_stmt(),
                25..=39 => {
                    if let Some(n) = self.mutate() {
                        return n;
                    }
                }
                40..=47 => return self.log_stmt(),
                48..=54 if deep => {
                    let c = self.cond();
                    let n1 = 1 + self.rng.below(3);
                    let then = self.block(n1, depth + 1);
                    if self.rng.chance(0.5) {
                        let n2 = 1 + self.rng.below(2);
                        let els = self.block(n2, depth + 1);
                        let mut kids = then;
                        kids.push(Node::block("} else {", els, ""));
                        // render trick: else is a nested node whose own post is empty
                        return Node::block(format!("if ({}) {{", c), kids, "}");
                    }
                    return Node::block(format!("if ({}) {{", c), then, "}");
                }
                55..=61 if deep => {
                    // bounded loops
                    self.loop_depth += 1;
                    let i = self.fresh("j");
                    let kind = self.rng.below(6);
                    let node = match kind {
                        0 => {
                            self.scopes.push(vec![Var { name: i.clone(), ty: Ty::Num, mutable: false }]);
                            let nb = 1 + self.rng.below(3);
                            let mut body = self.block(nb, depth + 1);
                            if self.cfg.f_break && self.rng.chance(0.3) {
                                let c = self.cond();
                                body.push(Node::leaf(format!("if ({}) {};", c, if self.rng.chance(0.5) { "break" } else { "continue" })));
                                self.tag("break-continue");
                            }
                            self.scopes.pop();
                            Node::block(format!("for (let {} = 0; {} < {}; {}++) {{", i, i, 1 + self.rng.below(4), i), body, "}")
                        }
                        1 => {
                            let src = self.arr(1);
                            self.scopes.push(vec![Var { name: i.clone(), ty: Ty::Num, mutable: false }]);
                            let nb = 1 + self.rng.below(3);
                            let body = self.block(nb, depth + 1);
                            self.scopes.pop();
                            self.tag("for-of");
                            Node::block(format!("for (const {} of {}.slice(0, 4)) {{", i, src), body, "}")
                        }
                        2 => {
                            if let Some(o) = self.pick_var(Ty::Obj) {
                                self.scopes.push(vec![Var { name: i.clone(), ty: Ty::Str, mutable: false }]);
                                let nb = 1 + self.rng.below(2);
                                let body = self.block(nb, depth + 1);
                                self.scopes.pop();
                                self.tag("for-in");
                                Node::block(format!("for (const {} in {}) {{", i, o.name), body, "}")
                            } else {
                                Node::leaf(";")
                            }
                        }
                        3 => {
                            if self.cfg.f_gen && let Some(g) = self.pick_var(Ty::GenFn) {
                                self.scopes.push(vec![Var { name: i.clone(), ty: Ty::Num, mutable: false }]);
                                let nb = 1 + self.rng.below(2);
                                let mut body = self.block(nb, depth + 1);
                                if self.cfg.f_break && self.rng.chance(0.3) {
                                    body.push(Node::leaf(format!("if ({} > 1) break;", i)));
                                    self.tag("for-of-gen-break");
                                }
                                self.scopes.pop();
                                self.tag("for-of-gen");
                                Node::block(format!("for (const {} of {}({})) {{", i, g.name, 1 + self.rng.below(4)), body, "}")
                            } else {
                                Node::leaf(";")
                            }
                        }
                        4 => {
                            let nb = 1 + self.rng.below(2);
                            let body = self.block(nb, depth + 1);
                            let mut kids = vec![];
                            kids.extend(body);
                            kids.push(Node::leaf(format!("{}++;", i)));
                            Node::block(
                                format!("let {} = 0; while ({} < {}) {{", i, i, 1 + self.rng.below(3)),
                                kids,
                                "}",
                            )
                        }
                        _ => {
                            if self.cfg.f_label && self.cfg.f_break {
                                let l = self.fresh("L");
                                let i2 = self.fresh("j");
                                self.scopes.push(vec![
                                    Var { name: i.clone(), ty: Ty::Num, mutable: false },
                                    Var { name: i2.clone(), ty: Ty::Num, mutable: false },
                                ]);
                                let nb = 1 + self.rng.below(2);
                                let mut body = self.block(nb, depth + 1);
                                body.push(Node::leaf(format!(
                                    "if ({} + {} > {}) {} {};",
                                    i, i2, 1 + self.rng.below(3),
                                    if self.rng.chance(0.5) { "break" } else { "continue" },
                                    l
                                )));
                                self.scopes.pop();
                                self.tag("label");
                                Node::block(
                                    format!("{}: for (let {} = 0; {} < 3; {}++) {{ for (let {} = 0; {} < 3; {}++) {{", l, i, i, i, i2, i2, i2),
                                    body,
                                    "} }",
                                )
                            } else {
                                Node::leaf(";")
                            }
                        }
                    };
                    self.loop_depth -= 1;
                    return node;
                }
                62..=68 if deep && self.cfg.f_try => {
                    self.tag("try");
                    let n1 = 1 + self.rng.below(3);
                    let mut body = self.block(n1, depth + 1);
                    if self.rng.chance(0.6) {
                        let c = self.cond();
                        let pos = self.rng.below(body.len() + 1);
                        body.insert(pos, Node::leaf(format!("if ({}) throw new Error(\"e\" + {});", c, self.num(1))));
                        self.tag("throw");
                    }
                    let e = self.fresh("e");
                    let mut kids = body;
                    let has_catch = self.rng.chance(0.8);
                    if has_catch {
                        self.scopes.push(Vec::new());
                        let nb = self.rng.below(2);
                        let mut cb = vec![Node::leaf(format!("__log.push(\"c:\" + String({} && {}.message !== undefined ? {}.message : {}));", e, e, e, e))];
                        cb.extend(self.block(nb, depth + 1));
                        self.scopes.pop();
                        kids.push(Node::block(format!("}} catch ({}: any) {{", e), cb, ""));
                    }
                    if !has_catch || self.rng.chance(0.5) {
                        let nb = 1 + self.rng.below(2);
                        let fb = self.block(nb, depth + 1);
                        kids.push(Node::block("} finally {", fb, ""));
                        self.tag("finally");
                    }
                    return Node::block("try {", kids, "}");
                }
                69..=72 if deep => {
                    // switch
                    self.tag("switch");
                    let d = self.num(1);
                    let mut kids = Vec::new();
                    for c in 0..3 {
                        let nb = 1 + self.rng.below(2);
                        let b = self.block(nb, depth + 1);
                        let brk = if self.cfg.f_break && self.rng.chance(0.8) { " break; }" } else { " }" };
                        kids.push(Node::block(format!("case {}: {{", c), b, brk.trim_start().to_string()));
                    }
                    let b = self.block(1, depth + 1);
                    kids.push(Node::block("default: {", b, "}"));
                    return Node::block(format!("switch (Math.abs({} | 0) % 4) {{", d), kids, "}");
                }
                73..=76 if deep && self.cfg.f_destructure => {
                    self.tag("destructure");
                    let a = self.fresh("n");
                    let b = self.fresh("n");
                    let node = if self.rng.chance(0.5) {
                        let src = self.arr(1);
                        let def = self.num(1);
                        Node::leaf(format!("let [{}, {} = {}]: any = {};", a, b, def, src))
                    } else {
                        let src = self.obj(1);
                        let def = self.num(1);
                        Node::leaf(format!("let {{ x: {}, q: {} = {} }}: any = {};", a, b, def, src))
                    };
                    self.declare(&a, Ty::Num, true);
                    self.declare(&b, Ty::Num, true);
                    return node;
                }
                77..=80 if deep && self.cfg.f_closure => {
                    // nested function declaration with statements, then call
                    self.tag("fn-decl");
                    let f = self.fresh("fn");
                    let p = self.fresh("p");
                    self.scopes.push(vec![Var { name: p.clone(), ty: Ty::Num, mutable: true }]);
                    let (sa, sg, sl) = (self.in_async, self.in_generator, self.loop_depth);
                    self.in_async = false;
                    self.in_generator = false;
                    self.loop_depth = 0;
                    let nb = 1 + self.rng.below(3);
                    let mut body = self.block(nb, depth + 1);
                    if self.rng.chance(0.5) {
                        // leave the function from inside open block scopes
                        self.tag("early-return");
                        let n = self.rng.below(6);
                        let v = self.num(1);
                        body.push(Node::leaf(match self.rng.below(if self.cfg.f_try { 4 } else { 3 }) {
                            0 => format!("if ((Number({p}) || 0) > {n}) {{ const t: any = {v}; {{ const u: any = [t]; return u[0]; }} }}"),
                            1 => format!("for (let i = 0; i < 3; i++) {{ const t: any = i + (Number({p}) || 0); if (t > {n}) {{ return t + {v}; }} }}"),
                            2 => format!("switch ((Number({p}) || 0) % 2) {{ case 0: {{ const t: any = {v}; return t; }} }}"),
                            _ => format!("try {{ const t: any = {v}; if (t !== {n}) {{ return t; }} }} finally {{ __log.push(\"fin\"); }}"),
                        }));
                    }
                    let ret = self.num(2);
                    body.push(Node::leaf(format!("return {};", ret)));
                    self.in_async = sa;
                    self.in_generator = sg;
                    self.loop_depth = sl;
                    self.scopes.pop();
                    self.declare(&f, Ty::Fun, false);
                    return Node::block(format!("function {}({}: any): any {{", f, p), body, "}");
                }
                81 if deep && self.in_async && self.holes_left > 0 => {
                    // synchronous function that issues a blocking order (no await)
                    if let Some(h) = self.hole_raw(true) {
                        let f = self.fresh("sh");
                        let p = self.fresh("p");
                        self.declare(&f, Ty::SFun, false);
                        self.tag("sync-suspending-fn");
                        return Node::leaf(format!(
                            "function {}({}: any): any {{ let l: any = {} + 1; {{ let l: any = 5; const t: any = {}; l = l + (Number(t) || 0) + arguments.length * 100; }} return l; }}",
                            f, p, p, h
                        ));
                    }
                }
                82 if self.in_async && !self.vars_of(Ty::AFun).is_empty() => {
                    // call an async helper without awaiting it at once
                    if let Some(f) = self.pick_var(Ty::AFun) {
                        let pv = self.fresh("pr");
                        let n = self.fresh("n");
                        let arg = self.num(1);
                        self.declare(&n, Ty::Num, true);
                        self.tag("async-call-not-awaited-at-once");
                        return Node::leaf(format!(
                            "const {pv}: any = {f}({arg}); __log.push(\"isP:\" + String({pv} instanceof Promise) + typeof {pv}.then); let {n}: any = await {pv};",
                            pv = pv, f = f.name, arg = arg, n = n
                        ));
                    }
                }
                83..=84 if deep && self.cfg.f_async_helpers && self.in_async => {
                    // async helper with its own holes, declared then awaited later via num()
                    self.tag("async-fn");
                    let f = self.fresh("af");
                    let p = self.fresh("p");
                    self.scopes.push(vec![Var { name: p.clone(), ty: Ty::Num, mutable: true }]);
                    let sl = self.loop_depth;
                    self.loop_depth = 0;
                    let nb = 1 + self.rng.below(3);
                    let mut body = self.block(nb, depth + 1);
                    let ret = self.num(2);
                    body.push(Node::leaf(format!("return {} + arguments.length * 1000 + (Number(arguments[0]) || 0);", ret)));
                    self.loop_depth = sl;
                    self.scopes.pop();
                    self.declare(&f, Ty::AFun, false);
                    return Node::block(format!("async function {}({}: any): Promise<any> {{", f, p), body, "}");
                }
                85..=88 if deep && self.cfg.f_gen => {
                    if self.rng.chance(0.3) {
                        // a generator delegating with yield* that is closed, abandoned, thrown into
                        // or drained while the delegation is in progress; the delegate's closure
                        // scope holds the outer generator
                        self.tag("gen-delegate");
                        let gi = self.fresh("gi");
                        let go = self.fresh("go");
                        let it = self.fresh("it");
                        let seen = self.fresh("sn");
                        let n = self.sync_num(0);
                        let variant = match self.rng.below(5) {
                            0 => format!("{seen}.push({it}.return(7).value);"),
                            1 => String::new(),
                            2 if self.cfg.f_break => format!("for (const v of {it}) {{ {seen}.push(v); if (v === 2) break; }}"),
                            2 => format!("{seen}.push({it}.return(8).done);"),
                            3 => format!("try {{ {it}.throw(new Error(\"t\")); }} catch (e: any) {{ {seen}.push(\"thrown\"); }}"),
                            _ => format!("for (const v of {it}) {{ {seen}.push(v); }}"),
                        };
                        return Node::leaf(format!(
                            "{{ function* {gi}(): any {{ yield 1; yield 2; yield {n}; }} function* {go}(): any {{ yield 0; yield* {gi}(); yield 9; }} const {it}: any = {go}(); const {seen}: any[] = [{it}.next().value, {it}.next().value]; {variant} __log.push(\"yd:\" + {seen}.join(\",\")); }}"
                        ));
                    }
                    self.tag("gen-decl");
                    let g = self.fresh("g");
                    let p = self.fresh("p");
                    let i = self.fresh("j");
                    self.scopes.push(vec![
                        Var { name: p.clone(), ty: Ty::Num, mutable: false },
                        Var { name: i.clone(), ty: Ty::Num, mutable: false },
                    ]);
                    let (sa, sg, sl) = (self.in_async, self.in_generator, self.loop_depth);
                    self.in_async = false;
                    self.in_generator = true;
                    self.loop_depth = 0;
                    let y = self.num(1);
                    let with_finally = self.cfg.f_try && self.rng.chance(0.4);
                    self.in_async = sa;
                    self.in_generator = sg;
                    self.loop_depth = sl;
                    self.scopes.pop();
                    self.declare(&g, Ty::GenFn, false);
                    let body = if with_finally {
                        self.tag("gen-finally");
                        vec![Node::leaf(format!(
                            "try {{ for (let {} = 0; {} < {}; {}++) {{ yield {} + {}; }} }} finally {{ __log.push(\"gf\"); }}",
                            i, i, p, i, y, i
                        ))]
                    } else {
                        vec![Node::leaf(format!(
                            "for (let {} = 0; {} < {}; {}++) {{ yield {} + {}; }}",
                            i, i, p, i, y, i
                        ))]
                    };
                    return Node::block(format!("function* {}({}: any): any {{", g, p), body, "}");
                }
                89..=91 if self.in_async && self.holes_left > 0 => {
                    // statement-level hole forms
                    if let Some(h) = self.hole() {
                        let n = self.fresh("n");
                        self.declare(&n, Ty::Num, true);
                        return Node::leaf(format!("let {}: any = {};", n, h));
                    }
                }
                98 if self.in_async && self.holes_left > 0 => {
                    // raw hole kept in a variable: value or host promise
                    if let Some(h) = self.hole_raw(false) {
                        let n = self.fresh("h");
                        self.declare(&n, Ty::HVal, false);
                        self.tag("raw-hole-var");
                        return Node::leaf(format!("const {}: any = {};", n, h));
                    }
                }
                99 if self.in_async => {
                    let hv = self.vars_of(Ty::HVal);
                    if !hv.is_empty() || self.holes_left > 0 {
                        // Promise.all over a constant, kept raw holes and fresh raw holes
                        let mut items: Vec<String> = vec![format!("{}", self.small())];
                        for v in hv.iter().take(2) {
                            items.push(v.name.clone());
                        }
                        if let Some(h) = self.hole_raw(false) {
                            items.push(h);
                        }
                        if self.rng.chance(0.5) {
                            items.push("\"c\"".into());
                        }
                        let a = self.fresh("a");
                        if self.rng.chance(0.5) {
                            // members are then-derived promises whose values are fresh objects: once a
                            // member has settled, only the combinator's own state holds its result
                            self.tag("promise-all-derived-members");
                            let comb = "all"; // (allSettled over pending promises: KF-C08-2, quarantined)
                            let wrapped: Vec<String> = items.iter().map(|it| format!("Promise.resolve({}).then((v: any) => ({{ n: v, l: [{{}}] }}))", it)).collect();
                            return Node::leaf(format!(
                                "{{ const {a}: any = await Promise.{comb}([{}]); __log.push(\"pa:\" + JSON.stringify({a})); }}",
                                wrapped.join(", ")
                            ));
                        }
                        self.declare(&a, Ty::Arr, true);
                        self.tag("promise-all");
                        return Node::leaf(format!("let {}: any = await Promise.all([{}]);", a, items.join(", ")));
                    }
                }
                90..=91 if self.cfg.f_timeish => {
                    // clock, randomness, console and identity-keyed collections: everything a run
                    // can observe of the outside world or of addresses
                    self.tag("env-identity");
                    let k = self.rng.below(14);
                    let o = self.pick_var(Ty::Obj).map(|v| v.name).unwrap_or_else(|| "__log".into());
                    let a = self.pick_var(Ty::Arr).map(|v| v.name).unwrap_or_else(|| "__log".into());
                    let id = self.fresh("e");
                    return Node::leaf(match k {
                        0 => "__log.push(\"rnd:\" + Math.floor(Math.random() * 1000));".to_string(),
                        1 => "__log.push(\"now:\" + (Date.now() % 100000));".to_string(),
                        2 => format!("console.log(\"L\", {}); console.count(\"c\");", self.sync_num(1)),
                        3 => format!(
                            "const {id}: any = new Map<any, any>(); {id}.set({o}, 1); {id}.set({a}, 2); {id}.set({o}, 3); {id}.set({{}}, 4); __log.push(\"km:\" + {id}.size + \":\" + {id}.get({a}) + \":\" + Array.from({id}.values()).join(\"\"));"
                        ),
                        4 => format!(
                            "const {id}: any = {{}}; for (let i = 0; i < 12; i++) {{ {id}[\"p\" + ((i * 7) % 12)] = i; }} __log.push(Object.keys({id}).join(\",\")); __log.push(JSON.stringify({id}));"
                        ),
                        5 => format!(
                            "const {id}: any = new Set<any>([{o}, {a}, {o}, {{}}, {{}}]); __log.push(\"os:\" + {id}.size + \":\" + {id}.has({a}));"
                        ),
                        8 => format!("console.time(\"{}\");", ["t", "load"][self.rng.below(2)]),
                        9 => format!("console.timeEnd(\"{}\");", ["t", "load"][self.rng.below(2)]),
                        10 => ["console.group(\"g\"); console.log(\"in group\");", "console.groupEnd(); console.log(\"after group\");"][self.rng.below(2)].to_string(),
                        11 => "console.countReset(\"c\"); console.count(\"c\"); console.count(\"d\");".to_string(),
                        12 => format!(
                            "__log.push(\"nf:\" + new Function(\"a\", \"b\", \"return String(a + b) + typeof Number + typeof String + [a].length\")({}, 2));",
                            self.sync_num(0)
                        ),
                        13 => format!(
                            "class {id}C {{ #pm(): any {{ return 1; }} #qm(): any {{ return 2; }} static st: any = 2; use(): any {{ return this.#pm() + this.#qm(); }} }} const {id}k: string[] = []; for (const k in {id}C) {{ {id}k.push(k); }} __log.push(\"cls:\" + {id}k.join(\",\") + \":\" + Object.keys({id}C).join(\",\") + \":\" + Object.keys(({id}C as any).__private_methods__ || {{}}).join(\",\") + new {id}C().use());"
                        ),
                        6 => format!(
                            "const {id} = Symbol(\"q\"); const {id}o: any = {{ [{id}]: 1, a: 2, [Symbol.for(\"g\")]: 3 }}; __log.push(\"sy:\" + Object.getOwnPropertySymbols({id}o).length + String({id}o[{id}]) + String(Symbol.for(\"g\") === Symbol.for(\"g\")));"
                        ),
                        _ => format!(
                            "const {id}: any = [{{ k: 1, t: \"a\" }}, {{ k: 0, t: \"b\" }}, {{ k: 1, t: \"c\" }}, {{ k: 0, t: \"d\" }}].sort((x: any, y: any) => x.k - y.k).map((x: any) => x.t).join(\"\"); __log.push(\"st:\" + {id});"
                        ),
                    });
                }
                95 if self.in_async && (!self.vars_of(Ty::SFun).is_empty() || !self.vars_of(Ty::AFun).is_empty()) => {
                    // a caller whose callee suspends, then reads its own `arguments`
                    self.tag("arguments-after-suspending-callee");
                    let w = self.fresh("w");
                    let n = self.fresh("n");
                    let (callee, aw, kw) = match (self.pick_var(Ty::SFun), self.pick_var(Ty::AFun)) {
                        (Some(sf), _) if self.rng.chance(0.5) => (sf.name, "", "function"),
                        (_, Some(af)) => (af.name, "await ", "async function"),
                        (Some(sf), None) => (sf.name, "", "function"),
                        _ => ("Number".to_string(), "", "function"),
                    };
                    let a1 = self.num(1);
                    let a2 = self.str_(0);
                    self.declare(&n, Ty::Str, true);
                    return Node::leaf(format!(
                        "{kw} {w}(a: any, b: any, c?: any): any {{ const r: any = {aw}{callee}(a); return String(r) + \"/\" + arguments.length + \"/\" + String(arguments[1]) + \"/\" + String(arguments[2]); }} let {n}: any = {aw2}{w}({a1}, {a2}, \"third\") + \"|\" + {aw2}{w}({a1}, {a2});",
                        aw2 = if kw == "async function" { "await " } else { "" }
                    ));
                }
                96 if deep && self.cfg.f_try => {
                    // an error leaves the callback of a native (caught by the program)
                    self.tag("throw-in-native-callback");
                    let e = self.fresh("e");
                    let k = self.rng.below(4);
                    let arr = self.arr(1);
                    let body = match k {
                        0 => format!("{arr}.concat([1, 2]).map((x: any, i: number) => {{ if (i > 0) throw new Error(\"cb\" + i); return {{ v: x }}; }});"),
                        1 => format!("[3, 1, 2].sort((x: any, y: any) => {{ throw new TypeError(\"cmp\"); }});"),
                        2 => format!("const g{e}: any = {{ get boom(): any {{ throw new RangeError(\"getter\"); }} }}; __log.push(String(g{e}.boom));"),
                        _ => format!("JSON.parse(\"[1,2]\", (k: string, v: any) => {{ if (k === \"1\") throw new Error(\"rev\"); return v; }});"),
                    };
                    return Node::leaf(format!("try {{ {body} }} catch ({e}: any) {{ __log.push(\"cbe:\" + String({e}.message)); }}"));
                }
                94 if deep && self.cfg.f_try => {
                    // an object thrown by a callee travels through a finally-only handler of the
                    // caller whose finally block allocates, and is inspected afterwards
                    self.tag("throw-through-finally");
                    let p = self.uniq_prefix.clone();
                    let e = self.fresh("e");
                    let arg = self.num(1);
                    let nb = 1 + self.rng.below(2);
                    let fin = self.block(nb, depth + 1);
                    let callee = if self.rng.chance(0.5) { "thrower" } else { "viaCallee" };
                    let mut kids = vec![Node::leaf(format!("try {{ {p}{callee}({arg}); }} finally {{"))];
                    kids.extend(fin);
                    kids.push(Node::leaf(format!(
                        "}} }} catch ({e}: any) {{ __log.push(\"tf:\" + __show({e}.code) + \":\" + String({e}.message) + \":\" + String({e} instanceof RangeError));"
                    )));
                    return Node::block("try {", kids, "}");
                }
                93 if self.in_async && self.holes_left >= 2 && self.cfg.f_batch_orders => {
                    // several orders issued in one go through a native (`[..].map(order)`): the
                    // program gets markers back and awaits them later, in some order, or never
                    let n = 2 + self.rng.below(2).min(self.holes_left - 2);
                    let mut keys = Vec::new();
                    for _ in 0..n {
                        self.holes_left -= 1;
                        self.hole_id += 1;
                        let k = self.hole_id;
                        let r = self.rng.below(100);
                        // KF-C07-6 (open) quarantine: a marker answered with a host promise yields the promise
                        // itself when awaited, so batch answers are immediate
                        let ans = if r < 8 { Answer::Undefined } else { Answer::Value(json!(k * 10 + 9)) };
                        self.answers.insert(k.to_string(), ans);
                        keys.push(k);
                    }
                    self.tag("batch-orders");
                    let b = self.fresh("bm");
                    let nn = self.fresh("n");
                    let lits: Vec<String> = keys.iter().map(|k| format!("{{ k: {} }}", k)).collect();
                    let junk = if self.rng.chance(0.5) { " const junk: any[] = [{}, [1, 2], { z: 1 }];" } else { "" };
                    let tail = match self.rng.below(if self.cfg.f_batch_unawaited { 4 } else { 3 }) {
                        0 => format!("let {nn}: any = \"\"; for (const m of {b}) {{ {nn} += String(await m) + \",\"; }}"),
                        1 => format!("let {nn}: any = \"\"; for (const m of {b}.slice().reverse()) {{ {nn} += String(await m) + \",\"; }}"),
                        2 => format!("let {nn}: any = String(await {b}[{b}.length - 1]);"),
                        _ => format!("let {nn}: any = String({b}.length);"),
                    };
                    self.declare(&nn, Ty::Str, true);
                    return Node::leaf(format!("const {b}: any[] = [{}].map(__hm);{junk} {tail}", lits.join(", ")));
                }
                97 if self.in_async && self.holes_left > 0 && self.cfg.f_host_resolver => {
                    self.holes_left -= 1;
                    self.hole_id += 1;
                    let k = self.hole_id;
                    self.answers.insert(k.to_string(), Answer::Value(serde_json::Value::Null));
                    self.tag("host-called-resolver");
                    let r = self.fresh("rs");
                    let p = self.fresh("pr");
                    let n = self.fresh("n");
                    self.declare(&n, Ty::Num, true);
                    let mid = if self.rng.chance(0.5) { format!(" __log.push(\"told:\" + String({p} instanceof Promise));") } else { String::new() };
                    return Node::leaf(format!(
                        "let {r}: any; const {p}: any = new Promise((res: any) => {{ {r} = res; }}); await __hr({{ k: {k}, resolve: {r} }});{mid} let {n}: any = await {p};"
                    ));
                }
                92 if self.cfg.f_symbol => {
                    // symbols kept in variables: identity, use as keys, registry
                    self.tag("symbol-var");
                    let syms = self.vars_of(Ty::Sym);
                    if syms.len() >= 2 && self.rng.chance(0.6) {
                        let a = syms[self.rng.below(syms.len())].name.clone();
                        let b = syms[self.rng.below(syms.len())].name.clone();
                        let o = self.fresh("o");
                        return Node::leaf(format!(
                            "const {o}: any = {{ p: 1, q: 2, r: 3 }}; {o}[{a}] = \"A\"; {o}[{b}] = \"B\"; __log.push(\"sy2:\" + String({a} === {b}) + Object.getOwnPropertySymbols({o}).length + String({o}[{a}]) + String(Symbol.keyFor({a})) + Object.getOwnPropertySymbols({o}).map((y: any) => String(y.description)).join(\"/\"));"
                        ));
                    }
                    let y = self.fresh("y");
                    self.declare(&y, Ty::Sym, false);
                    return Node::leaf(format!("const {} = Symbol(\"k{}\");", y, self.rng.below(4)));
                }
                93 if deep && self.cfg.f_symbol => {
                    self.tag("symbol");
                    let s = self.fresh("y");
                    let o = self.fresh("o");
                    let e = self.num(1);
                    self.declare(&o, Ty::Obj, false);
                    return Node::leaf(format!(
                        "const {} = Symbol(\"d\" + {}); const {}: any = {{ x: {}, [{}]: 1 }}; __log.push(String({}.description));",
                        s, self.rng.below(3), o, e, s, s
                    ));
                }
                94..=95 if deep && self.cfg.f_json => {
                    if let Some(o) = self.pick_var(Ty::Obj) {
                        self.tag("json-replacer");
                        return Node::leaf(format!(
                            "__log.push(JSON.stringify({}, (k: string, v: any) => typeof v === \"number\" ? v + 1 : v, {}));",
                            o.name,
                            self.rng.below(3)
                        ));
                    }
                }
                96..=97 if self.in_async => {
                    // in-program promise round trip (no host involved)
                    self.tag("inprog-promise");
                    let n = self.fresh("n");
                    let e = self.sync_num(1);
                    self.declare(&n, Ty::Num, true);
                    return Node::leaf(format!(
                        "let {}: any = await new Promise<any>((res: any) => res({})).then((v: any) => (Number(v) || 0) + 1);",
                        n, e
                    ));
                }
                _ => {}
            }
        }
        self.decl(1)
    }

    /// Build a whole program. `variant` selects how host holes are bound.
    pub fn program(mut self, variant: HoleVariant) -> Program {
        let p = self.uniq_prefix.clone();
        // helper class (declared before use)
        let mut decls: Vec<Node> = Vec::new();
        if self.cfg.f_class {
            self.tag("class");
            decls.push(Node::leaf(format!(
                "class {p}B {{ v: any; constructor(v: any) {{ this.v = v; }} m(x: any): any {{ return (Number(this.v) || 0) + (Number(x) || 0); }} static s(x: any): any {{ return x * 2; }} }}"
            )));
            let mut extra = String::new();
            self.in_async = true;
            if self.holes_left > 0 && self.rng.chance(0.6) {
                if let Some(h) = self.hole() {
                    self.has_async_method = true;
                    self.tag("async-method");
                    extra.push_str(&format!(
                        " async am(x: any): Promise<any> {{ const t: any = {h}; return (Number(this.v) || 0) + (Number(this.#p) || 0) + (Number(t) || 0) + (Number(x) || 0); }}"
                    ));
                }
            }
            if self.holes_left > 0 && self.rng.chance(0.3) {
                if let Some(h) = self.hole() {
                    self.has_static_async = true;
                    self.tag("static-async-method");
                    extra.push_str(&format!(
                        " static async sm(x: any): Promise<any> {{ const t: any = {h}; return (Number(t) || 0) + {p}B.s(x) + (typeof this === \"function\" ? 1 : 0); }}"
                    ));
                }
            }
            if self.holes_left > 0 && self.rng.chance(0.3) {
                if let Some(h) = self.hole_raw(true) {
                    self.has_ctor_hole = true;
                    self.tag("ctor-hole");
                    decls.push(Node::leaf(format!(
                        "class {p}C {{ h: any; x: any; constructor(x: any) {{ this.x = x; this.h = {h}; this.x = (Number(this.h) || 0) + x; }} }}"
                    )));
                }
            }
            if self.cfg.f_gen {
                self.tag("generator-method-class");
                decls.push(Node::leaf(format!(
                    "class {p}G {{ v: any[]; tag: any; constructor(n: any) {{ this.v = [n, (Number(n) || 0) + 1, (Number(n) || 0) + 2]; this.tag = {{ t: n }}; }} *walk(): any {{ let i = 0; while (i < this.v.length) {{ const item = this.v[i]; i++; yield (Number(item) || 0) + this.v.length + (Number(this.tag.t) || 0); }} }} }}\nconst {p}mkwalk = (n: any): any => new {p}G(n).walk();"
                )));
            }
            self.in_async = false;
            decls.push(Node::leaf(format!(
                "class {p}K extends {p}B {{ #p: any = 1; constructor(v: any) {{ super(v); this.#p = v; }} get g(): any {{ return (Number(this.#p) || 0) + 1; }} m(x: any): any {{ return super.m(x) + {p}B.s(1); }}{extra} }}"
            )));
        }
        if self.cfg.f_try {
            decls.push(Node::leaf(format!(
                "function {p}thrower(n: any): any {{ const err: any = new RangeError(\"r\" + n); err.code = {{ c: n, l: [n] }}; throw err; }}\nfunction {p}viaCallee(n: any): any {{ return {p}thrower(n); }}"
            )));
        }
        self.in_async = !self.cfg.sync_main;
        let n = self.cfg.size;
        self.budget = n as isize;
        let mut body = Vec::new();
        // seed variables so expressions have material
        body.push(Node::leaf(format!("let {p}n0: any = 3;")));
        self.declare(&format!("{p}n0"), Ty::Num, true);
        body.push(Node::leaf(format!("let {p}a0: any = [1, 2, 3];")));
        self.declare(&format!("{p}a0"), Ty::Arr, true);
        body.push(Node::leaf(format!("const {p}o0: any = {{ x: 1, y: 2 }};")));
        self.declare(&format!("{p}o0"), Ty::Obj, false);
        body.push(Node::leaf(format!("let {p}s0: any = \"abc\";")));
        self.declare(&format!("{p}s0"), Ty::Str, true);
        while self.budget > 0 {
            body.push(self.stmt(0));
        }
        let finals: Vec<String> = self.scopes[0]
            .iter()
            .filter(|v| matches!(v.ty, Ty::Num | Ty::Str | Ty::Arr | Ty::Obj | Ty::Map | Ty::Set | Ty::OArr))
            .map(|v| v.name.clone())
            .collect();
        body.push(Node::leaf(format!("return __show([{}]);", finals.join(", "))));
        let main = if self.cfg.sync_main {
            Node::block(format!("function {p}main(): any {{"), body, "}")
        } else {
            Node::block(format!("async function {p}main(): Promise<any> {{"), body, "}")
        };
        let mut kids = Vec::new();
        let lib_import = if self.cfg.f_lib { "import __util, { probe as __probe, kinds as __kinds, mk as __mk, seed as __useed, bumpLib as __ubump } from \"lib:util\";\n" } else { "" };
        kids.push(Node::leaf(format!("{}{}", lib_import, hole_prelude(variant, &self.answers))));
        kids.push(Node::leaf(
            "const __log: string[] = [];\nconst __tag = (s: any, ...v: any[]): string => s.join(\"_\") + \":\" + v.map((x: any) => String(x)).join(\",\") + \":\" + s.raw.length;",
        ));
        kids.push(Node::leaf(SHOW_PRELUDE));
        kids.extend(decls);
        kids.push(main);
        let aw = if self.cfg.sync_main { "" } else { "await " };
        kids.push(Node::leaf(format!(
            "let {p}r: any; try {{ {p}r = {aw}{p}main(); }} catch (e: any) {{ {p}r = \"threw:\" + String(e && e.message !== undefined ? e.message : e); }}"
        )));
        kids.push(Node::leaf(format!("{p}r + \"|\" + __log.join(\";\")")));
        Program {
            root: Node::block("// generated", kids, ""),
            holes_emitted: self.hole_id,
            answers: self.answers,
            tags: self.tags,
        }
    }
}

/// Number of native-matrix templates (24 inline ones + `MATRIX_EXT`).
pub const MATRIX_N: usize = 24 + MATRIX_EXT.len();

/// Second catalogue of native-matrix templates: natives that *detach* values from their receiver
/// (splice, pop, shift, delete), that build several fresh objects in a row (entries, descriptors,
/// regexp groups, JSON.parse of nested input), that call back into user code through getters,
/// toString/toJSON, iterators, proxies and comparators, and argument plumbing (bind, apply, rest,
/// spread, destructuring). `@A` = an array of fresh `{ v }` objects reachable only through the
/// array, `@N` = a number, `@S` = a string. Every template yields an array of objects with `.v`.
pub const MATRIX_EXT: &[&str] = &[
    /* 24 */ r#"((t: any[]) => { const r: any[] = t.splice(0, 2); return [{ v: r.length, r: r, t: t }]; })(@A)"#,
    /* 25 */ r#"((t: any[]) => { const r: any[] = t.splice(1, 1, { v: @N }, { v: 7 }); return r.concat(t); })(@A)"#,
    /* 26 */ r#"((t: any[]) => { const x: any = t.pop(); const y: any = t.shift(); const j: any[] = [{}, [1]]; return [{ v: j.length, x: x, y: y, t: t }]; })(@A)"#,
    /* 27 */ r#"((t: any[]) => { t.unshift({ v: @N }, { v: 1 }); t.push({ v: 2 }, { v: 3 }); return t; })(@A)"#,
    /* 28 */ r#"[[{ v: @N }], [[{ v: 1 }, [{ v: 2 }]]], @A].flat(3)"#,
    /* 29 */ r#"Object.entries(Object.fromEntries(@A.map((o: any, i: number) => ["k" + i, o]))).map((e: any) => ({ v: e[1].v, k: e[0], o: e[1] }))"#,
    /* 30 */ r#"Object.values(Object.getOwnPropertyDescriptors(Object.fromEntries(@A.map((o: any, i: number) => ["k" + i, o])))).map((d: any) => ({ v: d.value.v, w: d.writable }))"#,
    /* 31 */ r#"((m: any) => [{ v: m ? m.index : -1, g: m ? m.groups : null, a: m ? [...m] : [] }])(/(?<first>[a-z])(?<rest>[a-z]*)/.exec(@S))"#,
    /* 32 */ r#"Array.from(new Map(@A.map((o: any, i: number) => [o, { v: i }])).keys())"#,
    /* 33 */ r#"((f: any) => f({ v: 3 }))(((x: any, y: any, z: any) => [x, y, z]).bind(null, { v: @N }, { v: 2 }))"#,
    /* 34 */ r#"((...rest: any[]) => rest)(...@A, { v: @N })"#,
    /* 35 */ r#"(function (): any { return [this, ...arguments]; }).apply({ v: @N }, @A)"#,
    /* 36 */ r#"Reflect.apply((x: any, y: any) => [x ?? { v: -1 }, y ?? { v: -2 }], null, @A)"#,
    /* 37 */ r#"[Reflect.construct(function (o: any) { this.v = @N; this.o = o; } as any, @A)]"#,
    /* 38 */ r#"((e: any) => [{ v: 0, c: e.cause, m: e.message }])(new Error(@S, { cause: { v: @N, l: @A } }))"#,
    /* 39 */ r#"((p: any) => [p.x, p.yy, { v: Object.keys(p).length }])(new Proxy({}, { get: (t: any, k: any) => ({ v: String(k).length, k: String(k) }), ownKeys: () => ["a", "b"], getOwnPropertyDescriptor: () => ({ value: 1, enumerable: true, configurable: true }) }))"#,
    /* 40 */ r#"Object.values({ get a(): any { return { v: @N }; }, get b(): any { return { v: 1, l: [{}] }; }, c: { v: 2 } })"#,
    /* 41 */ r#"JSON.parse(JSON.stringify(@A.map((o: any) => ({ v: o.v, t: [o.v, { w: [o] }] }))))"#,
    /* 42 */ r#"@A.map((o: any) => ({ v: o.v, toString(): string { return JSON.stringify({ q: this.v }); } })).sort()"#,
    /* 43 */ r#"[{ v: @A.map((o: any) => ({ toString(): string { return [{}, o.v].length + "x"; } })).join("-").length }]"#,
    /* 44 */ r#"Array.from("abc", (c: string, i: number) => ({ v: i + @N, c: c }))"#,
    /* 45 */ r#"[...@A.entries()].map((e: any) => ({ v: e[0], o: e[1] }))"#,
    /* 46 */ r#"Array.from({ [Symbol.iterator]() { let i = 0; return { next: () => i < 3 ? { value: { v: i++ }, done: false } : { value: undefined, done: true } }; } } as any)"#,
    /* 47 */ r#"(([x, [y, z = { v: -1 }], ...rest]: any) => [x, y, z, ...rest])([{ v: @N }, [{ v: 1 }], ...@A])"#,
    /* 48 */ r#"(({ p, q = { v: -3 }, ...others }: any) => [p, q, { v: Object.keys(others).length, o: others }])({ p: { v: @N }, r: { v: 1 }, s2: @A })"#,
    /* 49 */ r#"Object.values(Object.assign({}, ...@A.map((o: any, i: number) => ({ ["k" + i]: { v: o.v } }))))"#,
    /* 50 */ r#"((g: any) => Object.keys(g).map((k: string) => ({ v: g[k].length, k: k, m: g[k] })))(Object.groupBy(@A.map((o: any) => ({ v: o.v })), (o: any) => "g" + ((Number(o.v) || 0) % 3)))"#,
    /* 51 */ r#"((s2: any) => { const out: any[] = []; for (const x of s2) { out.push(x); if (out.length < 3) s2.add({ v: out.length }); } return out; })(new Set(@A))"#,
    /* 52 */ r#"((m: any) => { const out: any[] = []; for (const [k, x] of m) { out.push({ v: x.v, k: k }); m.delete(k); if (out.length < 3) m.set({ id: out.length }, { v: out.length }); } return out; })(new Map(@A.map((o: any) => [{ id: o.v }, o])))"#,
    /* 53 */ r#"@A.concat([{ v: @N }], { v: 1 } as any, [[{ v: 2 }]] as any).map((o: any) => Array.isArray(o) ? o[0] : o)"#,
    /* 54 */ r#"((t: any[]) => { t.length = 1; t[3] = { v: @N }; return Array.from(t, (o: any) => o ?? { v: -1 }); })(@A)"#,
    /* 55 */ r#"((t: any[]) => t.fill({ v: @N }, 1, 2).copyWithin(0, 1))(@A.concat([{ v: 0 }, { v: 1 }]))"#,
    /* 56 */ r#"((t: any[]) => { t.sort((x: any, y: any) => { if (t.length < 8) t.push({ v: 9 }); return (Number(x.v) || 0) - (Number(y.v) || 0); }); return t.slice(0, 6); })(@A)"#,
    /* 57 */ r#"[{ v: 0, r: @S.replace(/(?<c>[a-z])/g, (...args: any[]) => JSON.stringify(args[args.length - 1])) }]"#,
    /* 58 */ r#"((strs: any, ...vals: any[]) => [{ v: strs.length, raw: [...strs.raw], vals: vals }])`a${{ v: @N }}b${@A}c`"#,
    /* 59 */ r#"((o: any) => [{ v: 0, own: o.own, other: o.other, base: o.base }])(Object.create({ base: { v: 1 } }, { own: { value: { v: @N }, enumerable: true }, other: { get: () => ({ v: 2 }), enumerable: true } }))"#,
    /* 60 */ r#"((o: any) => { delete o.k0; o.k9 = { v: @N }; return Object.values(o); })(Object.fromEntries(@A.map((x: any, i: number) => ["k" + i, x])))"#,
    /* 61 */ r#"((g: any) => { const first: any = g.next().value; const fin: any = g.return({ v: @N }).value; return [first ?? { v: -1 }, fin]; })((function* (): any { try { yield { v: 1 }; yield { v: 2 }; } finally { [{}, {}]; } })())"#,
    /* 62 */ r#"((g: any) => { g.next(); const r: any[] = []; try { g.throw({ v: @N, e: [{}] }); } catch (e: any) { r.push(e); } return r; })((function* (): any { yield 1; })())"#,
    /* 63 */ r#"[new (class { a: any = { v: @N }; b: any = [this.a, { v: 1 }]; get v(): number { return this.b.length; } })()]"#,
    /* 64 */ r#"[{ v: 0, r: [..."ab"].map((c: string) => ({ [c]: { v: @N }, [c + "2"]: [{}] })) }]"#,
    /* 65 */ r#"[{ v: 0, r: Object.entries({ a: 1, b: [2, { c: 3 }], d: { e: { f: [] } } }).map(([k, x]: any) => [k, structuredClone(x)]) }]"#,
    /* 66 */ r#"JSON.parse('[{"v":1,"a":[{"b":{"c":[1,2,{"d":null}]}},{"e":[[],[{}]]}]},{"v":2,"s":"x"},{"v":3,"o":{"p":{"q":{"r":[{"t":1}]}}}}]')"#,
    /* 67 */ r#"Array.of({ v: @N }, ...@A).concat(new Array({ v: 1 }, { v: 2 }))"#,
    /* 68 */ r#"@A.flatMap((o: any, i: number) => i % 2 ? [[{ v: o.v }]] : [[{ v: -1 }], []]).flat()"#,
    /* 69 */ r#"@A.map((o: any, i: number, all: any[]) => ({ v: i, o: o, n: all.length }))"#,
    /* 70 */ r#"[@A.at(-1) ?? { v: -1 }, ...@A.map((o: any) => ({ v: o.v })).slice(-2)]"#,
    /* 71 */ r#"Array.from(new Set(@A.map((o: any) => ({ v: o.v }))).entries()).map((e: any) => ({ v: e[0].v, same: e[0] === e[1] }))"#,
    /* 72 */ r#"@A.map((o: any) => ({ v: o.v, w: [o] })).reverse()"#,
    /* 73 */ r#"(() => { try { @A.forEach((o: any) => { throw { v: o.v, l: [{}] }; }); } catch (e: any) { return [e]; } return []; })()"#,
    /* 74 */ r#"((t: any[]) => { const removed: any[] = []; while (t.length > 1) { removed.push(t.splice(t.length - 1, 1)[0]); } return removed.concat(t); })(@A.map((o: any) => ({ v: o.v, n: { m: o.v } })))"#,
    /* 75 */ r#"((m: any, k: any) => { m.set(k, { v: @N }); const old: any = m.get(k); m.set(k, { v: 1 }); m.delete(k); const j: any[] = [{}, {}]; return [old, { v: j.length + m.size }]; })(new Map(), { id: 1 })"#,
    /* 76 */ r#"((o: any) => { const old: any = o.p; o.p = { v: 1 }; delete o.q; const j: any[] = [{}, {}]; return [old, o.p, { v: j.length }]; })({ p: { v: @N, l: [{}] }, q: { v: 2 } })"#,
    /* 77 */ r#"Object.values(Object.fromEntries([...new Map(@A.map((o: any, i: number) => ["k" + i, { v: o.v }]))]))"#,
    /* 78 */ r#"((t: any[]) => { const it: any = t[Symbol.iterator](); const first: any = it.next().value; t.length = 0; const j: any[] = [{}, {}]; return [first ?? { v: -1 }, { v: j.length }]; })(@A)"#,
    /* 79 */ r#"[{ v: [{}, {}].length }, { v: String({ toString() { return "ab" + [{}].length; } }).length }]"#,
    // catalogue 3: grouping with fresh keys, several handlers on one promise, combinators over
    // thenables, constructors fed by generators, toJSON / toPrimitive / isConcatSpreadable hooks
    /* 80 */ r#"[...Map.groupBy(@A, (o: any) => ({ k: (Number(o.v) || 0) % 2 })).entries()].map((e: any) => ({ v: e[1].length, k: e[0].k }))"#,
    /* 81 */ r#"[...Map.groupBy(@A.map((o: any) => ({ v: o.v })), (o: any) => [o.v, { w: o.v }]).keys()].map((k: any) => ({ v: k[0], w: k[1].w }))"#,
    /* 82 */ r#"(() => { let r: any; const p: any = new Promise((res: any) => { r = res; }); const out: any[] = []; p.then((x: any) => { out.push({ v: [{}, {}, {}].length }); }); p.then((x: any) => ({ v: x.v, l: [{}] })).then((y: any) => { out.push(y); }); p.then((x: any) => { out.push({ v: x.v, third: [x] }); }); r({ v: @N, o: {} }); return out; })()"#,
    /* 83 */ r#"(() => { let rj: any; const p: any = new Promise((_: any, rej: any) => { rj = rej; }); const out: any[] = []; p.catch((e: any) => { out.push({ v: [{}, {}].length }); }); p.then(null, (e: any) => ({ v: e.v, l: [{}] })).then((y: any) => { out.push(y); }); p.catch((e: any) => { out.push({ v: e.v, again: [e] }); }); rj({ v: @N, o: {} }); return out; })()"#,
    /* 84 */ r#"(() => { const rs: any[] = []; const ps: any[] = @A.map((o: any) => new Promise((res: any) => { rs.push(() => res({ v: o.v, l: [{}] })); })); const out: any[] = []; Promise.all(ps).then((all: any[]) => { for (const x of all) out.push(x); }); rs.reverse().forEach((f: any) => { f(); [{}, {}]; }); return out; })()"#,
    /* 85 */ r#"(() => { const out: any[] = []; Promise.all(@A.map((o: any) => ({ then(ok: any) { ok({ v: o.v, t: [{}] }); } }))).then((all: any[]) => { for (const x of all) out.push(x); }); return out; })()"#,
    /* 86 */ r#"(() => { const out: any[] = []; Promise.race(@A.map((o: any) => Promise.resolve({ v: o.v, l: [{}] }))).then((w: any) => { out.push(w); }); Promise.allSettled(@A.map((o: any, i: number) => i % 2 ? Promise.reject({ v: o.v }) : Promise.resolve({ v: o.v }))).then((all: any[]) => { for (const x of all) out.push({ v: (x.value ?? x.reason).v, s: x.status }); }); return out; })()"#,
    /* 87 */ r#"[...new Map((function* (): any { for (const o of @A) { yield [{ id: o.v }, { v: o.v, l: [{}] }]; } })()).entries()].map((e: any) => ({ v: e[1].v, id: e[0].id }))"#,
    /* 88 */ r#"[...new Set((function* (): any { for (const o of @A) { yield { v: o.v, l: [{}] }; } })())]"#,
    /* 89 */ r#"Object.values(Object.fromEntries((function* (): any { let i = 0; for (const o of @A) { yield ["k" + (i++), { v: o.v, l: [{}] }]; } })()))"#,
    /* 90 */ r#"JSON.parse(JSON.stringify(@A.map((o: any) => ({ toJSON() { return { v: o.v, l: [{}, { m: [o.v] }] }; } }))))"#,
    /* 91 */ r#"[{ v: 0, r: JSON.stringify({ a: @A, get g(): any { return [{ v: @N }, [{}]]; }, t: { toJSON(k: string) { return [{ k: k }, { v: 1 }]; } } }, null, 2).length }]"#,
    /* 92 */ r#"@A.map((o: any) => ({ [Symbol.toPrimitive](hint: string) { return [{}, hint].length + (Number(o.v) || 0); } })).map((o: any) => ({ v: +o, s: `${o}`, d: o + "" }))"#,
    /* 93 */ r#"[{ v: 0 }].concat({ length: 2, 0: { v: @N }, 1: { v: 1 }, get [Symbol.isConcatSpreadable]() { [{}, {}]; return true; } } as any, @A)"#,
    /* 94 */ r#"((t: any[]) => { const seen: any[] = []; t.every((o: any) => { seen.push({ v: o.v, c: [o] }); return seen.length < 3; }); t.some((o: any) => { seen.push({ v: o.v }); return seen.length > 4; }); const i: number = t.findIndex((o: any) => [{}, o.v].length > 5); const j: number = t.findLastIndex((o: any) => [{}].length > 5); return seen.concat([{ v: i + j }]); })(@A)"#,
    /* 95 */ r#"Object.values(Object.defineProperties({}, Object.fromEntries(@A.map((o: any, i: number) => ["p" + i, { get: () => ({ v: o.v, l: [{}] }), enumerable: true }]))))"#,
    /* 96 */ r#"Reflect.ownKeys(Object.fromEntries(@A.map((o: any, i: number) => ["k" + i, o]))).map((k: any) => ({ v: String(k).length, k: k }))"#,
    /* 97 */ r#"((s: string) => s.split(/(?:)/u, 3).concat(s.split("", 2)).map((c: string) => ({ v: c.length, c: c, l: [{}] })))(@S)"#,
    /* 98 */ r#"((o: any) => { const out: any[] = []; for (const k in o) { out.push({ v: o[k].v, k: k }); if (out.length === 1) { o.added = { v: @N }; delete o.k1; } } return out; })(Object.fromEntries(@A.map((x: any, i: number) => ["k" + i, x])))"#,
    /* 99 */ r#"((m: any) => [...structuredClone(m).entries()].map((e: any) => ({ v: e[1].v, k: e[0] })))(new Map(@A.map((o: any, i: number) => ["k" + i, { v: o.v, s: new Set([o.v]) }])))"#,
    /* 100 */ r#"((a: any[]) => { const out: any[] = []; a.forEach((o: any, i: number) => { if (i === 0) { a.length = 1; [{}, {}, {}]; } out.push({ v: o.v }); }); return out.concat(a); })(@A.concat([{ v: 1 }, { v: 2 }]))"#,
    /* 101 */ r#"((a: any[]) => a.map((o: any, i: number) => { if (i === 0) { a.pop(); a.pop(); [{}, {}]; } return { v: o ? o.v : -1 }; }))(@A.concat([{ v: 1 }, { v: 2 }]))"#,
    /* 102 */ r#"((a: any[]) => a.filter((o: any, i: number) => { if (i === 0) { a[1] = { v: @N }; a.splice(2, 1); [{}, {}]; } return true; }))(@A.concat([{ v: 1 }, { v: 2 }, { v: 3 }]))"#,
    /* 103 */ r#"((a: any[]) => [a.reduce((p: any, c: any, i: number) => { if (i === 1) { a.length = 0; [{}, {}]; } return { v: (Number(p.v) || 0) + (Number(c.v) || 0), p: p }; })])(@A.concat([{ v: 1 }, { v: 2 }]))"#,
    /* 104 */ r#"((a: any[]) => { const out: any[] = []; for (const [i, o] of a.entries()) { if (i === 0) { a.shift(); [{}, {}]; } out.push({ v: o ? o.v : -1, i: i }); } return out; })(@A.concat([{ v: 1 }, { v: 2 }]))"#,
    /* 105 */ r#"((a: any[]) => { const it: any = a.values(); const first: any = it.next().value; a.splice(0, a.length, { v: @N }); [{}, {}, {}]; return [first, it.next().value ?? { v: -1 }]; })(@A.concat([{ v: 1 }]))"#,
    /* 106 */ r#"((a: any[]) => a.toSorted((x: any, y: any) => { a.length = 0; [{}, {}]; return (Number(y.v) || 0) - (Number(x.v) || 0); }))(@A.concat([{ v: 1 }, { v: 2 }]))"#,
    /* 107 */ r#"((a: any[]) => a.flatMap((o: any, i: number) => { if (i === 0) { a.length = 1; } return [{ v: o.v }, [{ v: i }]]; }).flat())(@A.concat([{ v: 1 }]))"#,
    /* 108 */ r#"((o: any) => Object.entries(o).map(([k, x]: any, i: number) => { if (i === 0) { delete o.k1; delete o.k2; [{}, {}]; } return { v: x.v, k: k }; }))(Object.fromEntries(@A.concat([{ v: 1 }, { v: 2 }]).map((x: any, i: number) => ["k" + i, x])))"#,
    /* 109 */ r#"((m: any) => { const out: any[] = []; m.forEach((x: any, k: any) => { if (out.length === 0) { m.clear(); [{}, {}, {}]; } out.push({ v: x.v, k: k.id }); }); return out; })(new Map(@A.map((o: any) => [{ id: o.v }, o])))"#,
    /* 110 */ r#"((st: any) => { const out: any[] = []; st.forEach((x: any) => { if (out.length === 0) { st.clear(); [{}, {}, {}]; } out.push({ v: x.v }); }); return out; })(new Set(@A.map((o: any) => ({ v: o.v }))))"#,
    /* 111 */ r#"((a: any[]) => Array.from({ length: 3, 0: a[0], get 1() { a.length = 0; [{}, {}]; return { v: @N }; }, 2: a[1] } as any, (o: any) => o ?? { v: -1 }))(@A.concat([{ v: 1 }]))"#,
    /* 116 */ r#"((m: any) => { const out: any[] = []; m.forEach((x: any, k: any) => { if (out.length === 0) { for (const kk of [...m.keys()]) { if (kk !== k) m.delete(kk); } const junk: any[] = []; for (let i = 0; i < 40; i++) junk.push({ i: i }); } out.push({ v: x ? x.v : -1, k: k }); }); return out; })(new Map(@A.map((o: any, i: number) => ["k" + i, { v: o.v, l: [{}] }])))"#,
    /* 117 */ r#"((st: any) => { const out: any[] = []; st.forEach((x: any) => { if (out.length === 0) { for (const y of [...st]) { if (y !== x) st.delete(y); } const junk: any[] = []; for (let i = 0; i < 40; i++) junk.push({ i: i }); } out.push({ v: x ? x.v : -1 }); }); return out; })(new Set(@A.map((o: any) => ({ v: o.v, l: [{}] }))))"#,
    /* 118 */ r#"((a: any[]) => { const out: any[] = []; a.forEach((x: any, i: number) => { if (i === 0) { a.length = 1; const junk: any[] = []; for (let j = 0; j < 40; j++) junk.push({ j: j }); } out.push({ v: x ? x.v : -1 }); }); return out; })(@A.map((o: any) => ({ v: o.v, l: [{}] })).concat([{ v: 1 }, { v: 2 }]))"#,
    /* 113 */ r#"(() => { const rs: any[] = []; const out: any[] = []; Promise.all(@A.map((o: any) => new Promise((res: any) => { rs.push(res); }).then((x: any) => ({ v: x, l: [{}], from: o.v })))).then((all: any[]) => { for (const x of all) out.push(x); }); rs.forEach((f: any, i: number) => { f(i); [{}, {}]; }); return out; })()"#,
    /* 114 */ r#"(() => { const rs: any[] = []; const out: any[] = []; Promise.allSettled(@A.map((o: any, i: number) => new Promise((res: any, rej: any) => { rs.push(i % 2 ? rej : res); }).then((x: any) => ({ v: x, l: [{}] }), (e: any) => { throw { v: e, why: [{}] }; }))).then((all: any[]) => { for (const x of all) out.push({ v: (x.value ?? x.reason).v, s: x.status }); }); rs.forEach((f: any, i: number) => { f(i); [{}, {}]; }); return out; })()"#,
    /* 115 */ r#"(() => { const rs: any[] = []; const out: any[] = []; Promise.race(@A.map((o: any) => new Promise((res: any) => { rs.push(res); }).then((x: any) => ({ v: x, l: [{}] })))).then((w: any) => { out.push(w); }); Promise.any(@A.map((o: any) => new Promise((res: any) => { rs.push(res); }).then((x: any) => ({ v: x, m: [{}] })))).then((w: any) => { out.push(w); }); rs.reverse().forEach((f: any, i: number) => { f(i); [{}, {}]; }); return out; })()"#,
    /* 112 */ r#"((a: any[]) => [Object.assign({ v: 0 }, { get x(): any { a.length = 0; return [{}, {}]; } }, { y: a[0] }, ...a.map((o: any, i: number) => ({ ["z" + i]: { w: o.v } })))])(@A.concat([{ v: 1 }]))"#,
];

pub fn render(root: &Node) -> String {
    let mut s = String::new();
    root.render(&mut s, 0);
    s
}

/// Re-bind the holes of an already generated program to another variant (token-identical body).
pub fn rebind(root: &Node, variant: HoleVariant, answers: &BTreeMap<String, Answer>) -> Node {
    let mut r = root.clone();
    if let Some(first) = r.kids.first_mut() {
        // keep import lines that are not part of the hole prelude (lib:util, dependencies)
        let keep: Vec<&str> = first.pre.lines().filter(|l| l.trim_start().starts_with("import ") && !l.contains("tsrun:host")).collect();
        let mut pre = keep.join("\n");
        if !pre.is_empty() {
            pre.push('\n');
        }
        pre.push_str(&hole_prelude(variant, answers));
        first.pre = pre;
    }
    r
}
