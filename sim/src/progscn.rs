//! A generated program together with its host data; shared by the interpreter-level checks.

use crate::host::{Answer, Driver, GcSched, Inject, RunSpec};
use crate::proggen::{self, GenCfg, HoleVariant, Node};
use crate::rng::{Rng, Tape};
use serde::{Deserialize, Serialize};
use std::collections::BTreeMap;

#[derive(Clone, Debug, Serialize, Deserialize)]
pub struct ProgCase {
    pub tree: Node,
    #[serde(default)]
    pub answers: BTreeMap<String, Answer>,
    pub variant: HoleVariant,
    #[serde(default)]
    pub module_path: Option<String>,
    #[serde(default)]
    pub modules: BTreeMap<String, String>,
    #[serde(default)]
    pub tags: Vec<String>,
}

impl ProgCase {
    pub fn generate(rng: &mut Rng, cfg: GenCfg, variant: HoleVariant, prefix: &str) -> ProgCase {
        let g = proggen::Gen::new(rng, cfg, prefix);
        let p = g.program(variant);
        ProgCase {
            tree: p.root,
            answers: p.answers,
            variant,
            module_path: None,
            modules: BTreeMap::new(),
            tags: p.tags.iter().map(|s| s.to_string()).collect(),
        }
    }
    pub fn source(&self) -> String {
        proggen::render(&self.tree)
    }
    pub fn with_variant(&self, v: HoleVariant) -> ProgCase {
        ProgCase {
            tree: proggen::rebind(&self.tree, v, &self.answers),
            variant: v,
            ..self.clone()
        }
    }
    pub fn spec(&self, driver: Driver, gc: GcSched, tape: Tape, fuel: u64) -> RunSpec {
        RunSpec {
            source: self.source(),
            path: self.module_path.clone(),
            modules: self.modules.clone(),
            answers: self.answers.clone(),
            driver,
            gc,
            tape,
            fuel,
            clock_start: 1_700_000_000_000,
            random_seed: 12345,
            withhold_imports: false,
            linked_promises: false,
            host_activity_pm: 0,
            internal_sources: BTreeMap::new(), stale_answer_ids: Vec::new(), stub_then_real: false,
        }
    }
    /// Structural shrink candidates: delete one statement node, or unwrap one block.
    pub fn shrink_tree(&self) -> Vec<ProgCase> {
        let mut out = Vec::new();
        let total = self.tree.count().saturating_sub(1);
        // never delete the prelude nodes (first three kids of the root): start after them
        for i in 0..total {
            let mut t = self.tree.clone();
            let mut n = i;
            if t.remove_nth(&mut n) {
                // keep prelude intact
                if t.kids.len() >= 3
                    && t.kids[0] == self.tree.kids[0]
                    && t.kids[1] == self.tree.kids[1]
                    && t.kids[2] == self.tree.kids[2]
                {
                    out.push(ProgCase { tree: t, ..self.clone() });
                }
            }
        }
        let blocks = total;
        for i in 0..blocks {
            let mut t = self.tree.clone();
            let mut n = i;
            if t.unwrap_nth(&mut n) && t.kids.len() >= 3 && t.kids[0] == self.tree.kids[0] {
                out.push(ProgCase { tree: t, ..self.clone() });
            } else {
                break;
            }
        }
        out
    }
}

/// The collection-schedule space of DESIGN §5 C02.
pub fn random_gc(rng: &mut Rng) -> GcSched {
    let thresholds = [1u32, 2, 3, 5, 7, 13, 100];
    let mut g = GcSched::off();
    match rng.below(8) {
        0 | 1 => g.threshold = *rng.pick(&thresholds),
        2 | 3 => {
            g.inject = Inject::Prob {
                pm: *rng.pick(&[10u32, 100, 500]),
                seed: rng.next_u64(),
            }
        }
        4 => {
            g.inject = Inject::WindowFrac {
                from_pm: rng.below(1000) as u32,
                len: *rng.pick(&[1u64, 3, 10, 40]),
            }
        }
        5 => {
            g.force_step_pm = *rng.pick(&[50u32, 500, 1000]);
            g.force_seed = rng.next_u64();
            g.force_at_suspend = true;
        }
        6 => {
            // mixture
            g.threshold = *rng.pick(&thresholds);
            g.inject = Inject::Prob {
                pm: *rng.pick(&[10u32, 100]),
                seed: rng.next_u64(),
            };
            g.force_at_suspend = rng.chance(0.5);
        }
        _ => {
            g.threshold = 1;
            g.force_at_suspend = true;
            g.force_step_pm = 200;
            g.force_seed = rng.next_u64();
        }
    }
    g
}
