//! C02 — Garbage collection is invisible: no reachable object is ever reclaimed.
//!
//! Reference run with collection disabled; perturbed runs under seeded collection schedules
//! (thresholds, injected collections at arbitrary allocations via the H2 seam, bursts, host-forced
//! collect() between steps and at suspensions). Oracle: identical observable outcome, identical
//! host traffic, empty stale-dereference log (H1), no panic.

use crate::framework::{Check, Failure, RunReport, Tier};
use crate::host::{Driver, GcSched, Inject, Outcome, run_solo, run_solo_hint};
use crate::proggen::{GenCfg, HoleVariant, Node};
use crate::progscn::{ProgCase, random_gc};
use crate::rng::{Rng, Tape};
use serde::{Deserialize, Serialize};
use serde_json::{Value, json};

#[derive(Clone, Debug, Serialize, Deserialize)]
pub struct Scn {
    pub case: ProgCase,
    pub driver: Driver,
    pub schedules: Vec<GcSched>,
    pub tape: Tape,
    pub fuel: u64,
}

pub struct C02;

pub fn compare(reference: &Outcome, other: &Outcome) -> Option<(String, Value)> {
    if reference.result != other.result {
        return Some((
            "outcome_differs_from_gc_off".into(),
            json!({"expected": reference.result, "observed": other.result}),
        ));
    }
    if reference.console != other.console {
        return Some((
            "console_differs_from_gc_off".into(),
            json!({"expected": reference.console, "observed": other.console}),
        ));
    }
    if reference.traffic != other.traffic {
        return Some((
            "host_traffic_differs_from_gc_off".into(),
            json!({"expected": reference.traffic, "observed": other.traffic}),
        ));
    }
    if reference.exports != other.exports {
        return Some((
            "exports_differ_from_gc_off".into(),
            json!({"expected": reference.exports, "observed": other.exports}),
        ));
    }
    None
}

impl Check for C02 {
    type Scn = Scn;
    fn id(&self) -> &'static str {
        "C02"
    }
    fn rule(&self) -> String {
        "progGen programs (typed pool, natives with callbacks, classes, generators, proxies, JSON, Map/Set, try/finally, async helpers, host holes answered by the simulated host incl. errors and deferred promises) x 4-8 seeded collection schedules each (threshold in {1,2,3,5,7,13,100}, injected collections with p in {0.01,0.1,0.5}, burst windows placed by the reference allocation count, host-forced collect() after steps / at suspensions, mixtures); reference = same program and host tape with collection off. non-trivial = reference run is not a syntax error AND at least one perturbed run collected at least once; distinct = distinct hash of (program outcome digest, schedule list)".into()
    }
    fn components(&self) -> Value {
        json!({"real": ["lexer", "parser", "compiler", "BytecodeVM", "Interpreter prepare/step/eval/fulfill_orders", "gc.rs", "builtins", "api.rs promise helpers"],
               "stub": ["host (order answers from a choice tape)", "ConsoleProvider", "TimeProvider (simulated clock)", "RandomProvider (seeded)", "collector schedule (H2 seam)"],
               "not_run": ["src/bin/tsrun.rs", "wasm", "ffi"]})
    }
    fn assumptions(&self) -> Vec<String> {
        vec![
            "nothing in tsrun is legitimately collection-dependent (no WeakRef/FinalizationRegistry); gc_stats is excluded from outcomes".into(),
            "a stale clone/drop of a handle is not alarmed; only a borrow through a stale handle is".into(),
        ]
    }

    fn generate(&self, rng: &mut Rng, _idx: usize, _tier: Tier) -> Scn {
        let with_holes = rng.chance(0.4);
        let holes = if with_holes { 1 + rng.below(4) } else { 0 };
        let mut cfg = GenCfg::swarm(rng, holes);
        cfg.size = 5 + rng.below(40);
        let variant = if !with_holes {
            HoleVariant::Sync
        } else if rng.chance(0.5) {
            HoleVariant::Order
        } else {
            HoleVariant::OrderDirect
        };
        let mut case = ProgCase::generate(rng, cfg, variant, "v");
        if rng.chance(0.3) {
            case.module_path = Some("/p/main.ts".into());
        }
        if rng.chance(0.3) {
            // a value exported by expression has no binding: only the export table holds it
            // while the rest of the program allocates (script and module mode)
            let at = 3.min(case.tree.kids.len());
            case.tree.kids.insert(at, Node::leaf(format!("export default {{ dflt: {}, l: [{{ m: 1 }}] }};", rng.below(100))));
        }
        if case.module_path.is_some() && rng.chance(0.4) {
            // ... and the same inside a host-provided dependency, read back by the importer
            case.modules.insert(
                "/p/dep.ts".into(),
                "export default { a: 41, l: [{ b: 1 }] };\nexport const made: any = [{ c: 2 }].map((o: any) => ({ d: o.c }));\nconst junk: any[] = []; for (let i = 0; i < 24; i++) { junk.push({ i: i, s: \"x\" + i }); }\nexport const n: number = junk.length;".into(),
            );
            if let Some(first) = case.tree.kids.first_mut() {
                first.pre = format!("import __dflt, {{ n as __dn, made as __dmade }} from \"./dep.ts\";\n{}", first.pre);
            }
            let at = 3.min(case.tree.kids.len());
            case.tree.kids.insert(at, Node::leaf("__log.push(\"dep:\" + JSON.stringify(__dflt) + __dn + JSON.stringify(__dmade));"));
        }
        let n = 4 + rng.below(5);
        let schedules = (0..n).map(|_| random_gc(rng)).collect();
        let driver = if rng.chance(0.7) { Driver::Step } else { Driver::Eval };
        Scn {
            case,
            driver,
            schedules,
            tape: Tape::random(rng, 24),
            fuel: 400_000,
        }
    }

    fn generate_stream(&self, stream: &str, rng: &mut Rng, idx: usize, tier: Tier) -> Scn {
        if stream != "corpus" {
            return self.generate(rng, idx, tier);
        }
        // author-written programs (tests/interpreter snippets, examples/ with their module graphs),
        // every entry in turn, under the same schedule space
        let c = crate::corpus::corpus();
        let total = c.snippets.len() + c.examples.len();
        let k = idx % total.max(1);
        let (e, fuel) = if k < c.snippets.len() { (&c.snippets[k], 400_000) } else { (&c.examples[k - c.snippets.len()], 1_500_000) };
        let mut case = e.to_case();
        if case.module_path.is_none() && !e.src.contains("import ") && rng.chance(0.25) {
            case.module_path = Some("/p/main.ts".into());
        }
        let n = 4 + rng.below(4);
        let schedules = (0..n).map(|_| random_gc(rng)).collect();
        let driver = if rng.chance(0.7) { Driver::Step } else { Driver::Eval };
        Scn { case, driver, schedules, tape: Tape::random(rng, 8), fuel }
    }

    fn shrink(&self, scn: &Scn) -> Vec<Scn> {
        let mut out = Vec::new();
        if scn.schedules.len() > 1 {
            for s in &scn.schedules {
                out.push(Scn { schedules: vec![s.clone()], ..scn.clone() });
            }
        }
        // convert a probabilistic / window schedule into its explicit injected set, then halve it
        if scn.schedules.len() == 1 {
            let g = &scn.schedules[0];
            match &g.inject {
                Inject::Explicit(v) if v.len() > 1 => {
                    let h = v.len() / 2;
                    for part in [v[..h].to_vec(), v[h..].to_vec()] {
                        let mut g2 = g.clone();
                        g2.inject = Inject::Explicit(part);
                        out.push(Scn { schedules: vec![g2], ..scn.clone() });
                    }
                    if v.len() <= 8 {
                        for i in 0..v.len() {
                            let mut p = v.clone();
                            p.remove(i);
                            let mut g2 = g.clone();
                            g2.inject = Inject::Explicit(p);
                            out.push(Scn { schedules: vec![g2], ..scn.clone() });
                        }
                    }
                }
                Inject::Prob { .. } | Inject::Window { .. } | Inject::WindowFrac { .. } => {
                    let reference = run_solo(&scn.case.spec(scn.driver, GcSched::off(), scn.tape.clone(), scn.fuel));
                    let _ = run_solo_hint(
                        &scn.case.spec(scn.driver, g.clone(), scn.tape.clone(), scn.fuel),
                        reference.counters.allocs,
                    );
                    let idx = crate::host::injected_indices();
                    if !idx.is_empty() {
                        let mut g2 = g.clone();
                        g2.inject = Inject::Explicit(idx);
                        // explicit lists serialise longer than the policy: force acceptance via size by
                        // also dropping the other knobs when possible
                        out.push(Scn { schedules: vec![g2], ..scn.clone() });
                    }
                }
                _ => {}
            }
            if g.threshold != 0 && g.inject != Inject::None {
                let mut g2 = g.clone();
                g2.threshold = 0;
                out.push(Scn { schedules: vec![g2], ..scn.clone() });
            }
            if g.force_step_pm != 0 || g.force_at_suspend {
                let mut g2 = g.clone();
                g2.force_step_pm = 0;
                g2.force_at_suspend = false;
                out.push(Scn { schedules: vec![g2], ..scn.clone() });
            }
        }
        for c in scn.case.shrink_tree() {
            out.push(Scn { case: c, ..scn.clone() });
        }
        if !scn.tape.v.is_empty() {
            out.push(Scn { tape: Tape::from_vec(Vec::new()), ..scn.clone() });
        }
        if scn.driver == Driver::Eval {
            out.push(Scn { driver: Driver::Step, ..scn.clone() });
        }
        out
    }

    fn execute(&self, scn: &Scn) -> RunReport {
        let mut rep = RunReport::default();
        let reference = run_solo(&scn.case.spec(scn.driver, GcSched::off(), scn.tape.clone(), scn.fuel));
        rep.sim_instructions += reference.counters.instructions;
        let syntax = reference.result.starts_with("error:SyntaxError");
        if syntax {
            rep.bump("reference_syntax_error", 1);
        }
        if reference.result.starts_with("complete:") {
            rep.bump("reference_completed", 1);
        } else if reference.result.starts_with("error:") {
            rep.bump("reference_uncaught_error", 1);
        } else {
            rep.bump("reference_other_end", 1);
        }
        if !reference.stale.is_empty() {
            rep.fail(Failure::new(
                "stale_deref_with_gc_off",
                reference.stale[0].clone(),
                json!({"stale": reference.stale}),
            ));
        }
        let mut digest = format!("{:x}", reference.digest());
        let mut any_collected = false;
        for (si, g) in scn.schedules.iter().enumerate() {
            let out = run_solo_hint(
                &scn.case.spec(scn.driver, g.clone(), scn.tape.clone(), scn.fuel),
                reference.counters.allocs,
            );
            rep.sim_instructions += out.counters.instructions;
            if out.counters.collections > 0 {
                any_collected = true;
            }
            rep.bump("collections", out.counters.collections);
            rep.bump("collections_injected", out.counters.injected);
            rep.bump("collections_forced_by_host", out.forced_collects);
            rep.bump("probe_collection_inside_native_callback", out.counters.collections_nested.min(1) * (scn.driver == Driver::Step) as u64
                + out.counters.collections_nested2.min(1) * (scn.driver == Driver::Eval) as u64);
            rep.bump("probe_collection_between_order_issue_and_answer", (out.forced_collects > 0 && out.orders_seen > 0) as u64);
            rep.bump("host_held_values_reread", out.held_values_reread);
            rep.bump("suspensions", out.suspensions);
            rep.bump("orders", out.orders_seen);
            rep.bump("error_answers", out.error_answers);
            rep.bump("deferred_settled", out.deferred_settled);
            rep.bump("idle_steps", out.idle_steps);
            rep.bump("stale_clones_or_drops_not_alarmed", out.counters.stale_clones + out.counters.stale_drops);
            digest.push_str(&format!("|{:?}", g));
            if rep.failure.is_some() {
                continue;
            }
            if let Some((clause, detail)) = compare(&reference, &out) {
                let obs = detail.get("observed").map(|v| v.to_string()).unwrap_or_default();
                let short: String = obs.chars().take(200).collect();
                rep.fail(Failure::new(
                    &clause,
                    short,
                    json!({"schedule_index": si, "schedule": g, "diff": detail, "injected_at": crate::host::injected_indices().into_iter().take(50).collect::<Vec<_>>()}),
                ));
            } else if let Some(ch) = &out.held_value_changed {
                rep.fail(Failure::new(
                    "host_held_value_changed",
                    ch.chars().take(200).collect::<String>(),
                    json!({"schedule_index": si, "schedule": g, "change": ch}),
                ));
            } else if !out.stale.is_empty() {
                rep.fail(Failure::new(
                    "stale_deref",
                    out.stale[0].clone(),
                    json!({"schedule_index": si, "schedule": g, "stale": out.stale}),
                ));
            }
        }
        rep.nontrivial = !syntax && any_collected;
        rep.trace_hash = crate::rng::hash_str(&digest);
        rep
    }
}
