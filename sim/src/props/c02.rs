//! C02 — Garbage collection is invisible: no reachable object is ever reclaimed.
//!
//! Reference run with collection disabled; perturbed runs under seeded collection schedules
//! (thresholds, injected collections at arbitrary allocations via the H2 seam, bursts, host-forced
//! collect() between steps and at suspensions). Oracle: identical observable outcome, identical
//! host traffic, empty stale-dereference log (H1), no panic.

use crate::framework::{Check, Failure, RunReport, Tier};
use crate::host::{Driver, GcSched, Inject, Outcome, run_solo, run_solo_hint};
use crate::proggen::{GenCfg, HoleVariant, Node};
use crate::progscn::{ProgCase, random_gc};
use crate::rng::{Rng, Tape};
use serde::{Deserialize, Serialize};
use serde_json::{Value, json};
use std::collections::BTreeMap;

#[derive(Clone, Debug, Serialize, Deserialize)]
pub struct Scn {
    pub case: ProgCase,
    pub driver: Driver,
    pub schedules: Vec<GcSched>,
    pub tape: Tape,
    pub fuel: u64,
    /// session stratum: a history of module runs and host API calls on ONE interpreter (the
    /// host keeps exported values and functions across runs and calls them later); `case` is unused
    #[serde(default)]
    pub session: Option<Session>,
}

#[derive(Clone, Debug, Serialize, Deserialize, PartialEq)]
pub enum SOp {
    /// prepare/eval the module at this path of the store as the entry program and run it out
    Run { path: String, eval: bool },
    /// keep the named export of the last entry program (host-guarded) for later
    Keep { name: String },
    /// call kept value #idx (if it is a function) with one numeric argument; keep an object result
    Call { idx: usize, arg: i64 },
    /// show kept value #idx (JSON view) and its keys
    Read { idx: usize },
    /// host-forced collection (skipped in the collection-off reference run)
    Collect,
    /// the host allocates and drops n unrelated objects
    Churn(u32),
}

#[derive(Clone, Debug, Serialize, Deserialize)]
pub struct Session {
    pub modules: BTreeMap<String, String>,
    pub ops: Vec<SOp>,
}

fn session_modules(rng: &mut Rng) -> BTreeMap<String, String> {
    let mut m = BTreeMap::new();
    let n = rng.below(50);
    m.insert(
        "/s/lib.ts".to_string(),
        format!("export let counter: number = {n};\nexport const box: any = {{ v: {n}, l: [{{ m: 1 }}] }};\nexport function bump(k: any): number {{ counter += 1; box.v += (Number(k) || 0); box.l.push({{ at: counter }}); return counter; }}\nexport function tag(): string {{ return \"lib:\" + counter + \":\" + box.v + \":\" + box.l.length; }}\nexport class Pt {{ x: number; constructor(x: number) {{ this.x = x; }} twice(): any {{ return {{ t: this.x * 2, from: [this] }}; }} }}\nexport default {{ d: {n}, nested: {{ e: [1, {{ f: 2 }}] }} }};\nconsole.log(\"run lib\");"),
    );
    m.insert(
        "/s/user.ts".to_string(),
        "import dflt, { counter, box, bump, tag, Pt } from \"./lib.ts\";\nimport * as ns from \"./lib.ts\";\nexport function read(k: any): string { return counter + \"/\" + box.v + \"/\" + tag() + \"/\" + ns.counter + \"/\" + (Number(k) || 0); }\nexport function kind(): string { return typeof bump + \"/\" + typeof dflt + \"/\" + typeof Pt + \"/\" + JSON.stringify(dflt); }\nexport function make(k: any): any { bump(k); return { p: new Pt(Number(k) || 0).twice(), snap: [box, dflt], own: { k: k } }; }\nexport const held: any = { b: box, d: dflt, fresh: [{ z: 1 }] };\nexport let local: any = { n: 0 };\nexport function swap(k: any): any { const old: any = local; local = { n: (Number(k) || 0), prev: [old.n] }; return old; }\nconsole.log(\"run user\", read(0));".to_string(),
    );
    m.insert(
        "/s/chain.ts".to_string(),
        "export { bump as cbump, tag as ctag, default as cdflt } from \"./lib.ts\";\nexport * as all from \"./user.ts\";\nimport { make, swap } from \"./user.ts\";\nexport const made: any = make(3);\nexport function again(k: any): any { return [make(k), swap(k)]; }\nconsole.log(\"run chain\");".to_string(),
    );
    m.insert(
        "/s/solo.ts".to_string(),
        format!("const priv: any = {{ secret: [{{ s: {n} }}] }};\nexport const getter: any = () => priv.secret[0].s + priv.secret.length;\nexport function grow(k: any): any {{ priv.secret.push({{ s: k }}); return priv.secret.slice(-2); }}\nexport function* gen(k: any): any {{ let i = 0; while (i < 3) {{ yield {{ i: i++, k: k, p: priv.secret.length }}; }} }}\nexport const it: any = gen(7);\nexport function pull(): any {{ return it.next(); }}\nexport default class Holder {{ static made: any[] = []; static mk(k: any): any {{ const o: any = {{ k: k }}; Holder.made.push(o); return Holder.made.length; }} }}\nconsole.log(\"run solo\");"),
    );
    m
}

fn gen_session(rng: &mut Rng) -> Session {
    let modules = session_modules(rng);
    let paths: Vec<String> = modules.keys().cloned().collect();
    let names: BTreeMap<&str, Vec<&str>> = [
        ("/s/lib.ts", vec!["box", "bump", "tag", "default", "Pt", "counter"]),
        ("/s/user.ts", vec!["read", "kind", "make", "held", "swap", "local"]),
        ("/s/chain.ts", vec!["cbump", "ctag", "cdflt", "all", "made", "again"]),
        ("/s/solo.ts", vec!["getter", "grow", "gen", "it", "pull", "default"]),
    ]
    .into_iter()
    .collect();
    let mut ops = Vec::new();
    let mut kept = 0usize;
    let mut last: Option<String> = None;
    let n = 6 + rng.below(18);
    for _ in 0..n {
        let r = rng.below(100);
        if last.is_none() || r < 22 {
            let p = rng.pick(&paths).clone();
            ops.push(SOp::Run { path: p.clone(), eval: rng.chance(0.3) });
            last = Some(p);
        } else if r < 45 {
            let l = last.clone().unwrap_or_default();
            let name = rng.pick(&names[l.as_str()]).to_string();
            ops.push(SOp::Keep { name });
            kept += 1;
        } else if r < 70 && kept > 0 {
            ops.push(SOp::Call { idx: rng.below(kept), arg: rng.range(0, 9) });
            kept += 1; // a call keeps its result too
        } else if r < 80 && kept > 0 {
            ops.push(SOp::Read { idx: rng.below(kept) });
        } else if r < 90 {
            ops.push(SOp::Collect);
        } else {
            ops.push(SOp::Churn(1 + rng.below(120) as u32));
        }
    }
    // always end by using everything that was kept
    for i in 0..kept.min(12) {
        ops.push(SOp::Call { idx: i, arg: 1 });
        ops.push(SOp::Read { idx: i });
    }
    Session { modules, ops }
}

/// Execute a session under one collection schedule; returns the host-visible trace.
fn run_session(sess: &Session, gc: &GcSched, fuel: u64) -> (Vec<String>, crate::host::Outcome) {
    use tsrun::api;
    tsrun::verif::reset();
    let mut h = crate::host::new_interp(0, 1);
    let mut trace: Vec<String> = Vec::new();
    let mut total = crate::host::Outcome::default();
    let keep_guard = api::create_guard(&h.interp);
    let mut kept: Vec<tsrun::JsValue> = Vec::new();
    crate::host::install_gc(gc, 0);
    h.interp.set_gc_threshold(gc.threshold as usize);
    for op in &sess.ops {
        match op {
            SOp::Run { path, eval } => {
                let spec = crate::host::RunSpec {
                    source: sess.modules.get(path).cloned().unwrap_or_default(),
                    path: Some(path.clone()),
                    modules: sess.modules.clone(),
                    answers: Default::default(),
                    driver: if *eval { Driver::Eval } else { Driver::Step },
                    gc: gc.clone(),
                    tape: Tape::from_vec(vec![]),
                    fuel,
                    clock_start: 0,
                    random_seed: 1,
                    withhold_imports: false,
                    linked_promises: false,
                    host_activity_pm: 0,
                    internal_sources: Default::default(), stale_answer_ids: Vec::new(), stub_then_real: false,
                };
                let out = crate::props::c11::run_to_end(&mut h, spec);
                crate::host::install_gc(gc, 0);
                trace.push(format!("run {} -> {} | {:?} | {:?} | {:?}", path, out.result, out.console, out.exports, out.traffic));
                total.forced_collects += out.forced_collects;
                total.stale.extend(out.stale);
            }
            SOp::Keep { name } => {
                let v = api::get_export(&h.interp, name);
                match v {
                    Some(v) => {
                        api::guard_value(&keep_guard, &v);
                        trace.push(format!("keep {} = {}", name, crate::host::show_value(&v)));
                        kept.push(v);
                    }
                    None => {
                        trace.push(format!("keep {} = <none>", name));
                        kept.push(tsrun::JsValue::Undefined);
                    }
                }
            }
            SOp::Call { idx, arg } => {
                let f = kept.get(*idx).cloned().unwrap_or(tsrun::JsValue::Undefined);
                tsrun::verif::set_fuel(Some(fuel));
                let r = if f.is_callable() {
                    match api::call_function(&mut h.interp, &keep_guard, &f, None, &[tsrun::JsValue::Number(*arg as f64)]) {
                        Ok(v) => {
                            let s = crate::host::show_value(&v);
                            kept.push(v);
                            s
                        }
                        Err(e) => {
                            kept.push(tsrun::JsValue::Undefined);
                            let (k, m) = crate::host::err_kind_msg(&e);
                            format!("error:{}:{}", k, m)
                        }
                    }
                } else {
                    kept.push(tsrun::JsValue::Undefined);
                    "not-callable".to_string()
                };
                trace.push(format!("call #{}({}) = {}", idx, arg, r));
            }
            SOp::Read { idx } => {
                let v = kept.get(*idx).cloned().unwrap_or(tsrun::JsValue::Undefined);
                trace.push(format!("read #{} = {} keys={:?}", idx, crate::host::show_value(&v), api::keys(&v)));
            }
            SOp::Collect => {
                if !gc.is_off() {
                    h.interp.collect();
                    total.forced_collects += 1;
                }
            }
            SOp::Churn(n) => {
                let g = api::create_guard(&h.interp);
                for i in 0..*n {
                    let _ = api::create_from_json(&mut h.interp, &g, &serde_json::json!({"junk": [i, {"j": i}], "s": "x"}));
                }
            }
        }
    }
    let stale = tsrun::verif::take_stale_derefs();
    total.stale.extend(stale.iter().map(|s| format!("{:?}", s)));
    total.counters = tsrun::verif::counters();
    tsrun::verif::set_gc_decider(None);
    tsrun::verif::set_fuel(None);
    (trace, total)
}

pub struct C02;

pub fn compare(reference: &Outcome, other: &Outcome) -> Option<(String, Value)> {
    if reference.result != other.result {
        return Some((
            "outcome_differs_from_gc_off".into(),
            json!({"expected": reference.result, "observed": other.result}),
        ));
    }
    if reference.console != other.console {
        return Some((
            "console_differs_from_gc_off".into(),
            json!({"expected": reference.console, "observed": other.console}),
        ));
    }
    if reference.traffic != other.traffic {
        return Some((
            "host_traffic_differs_from_gc_off".into(),
            json!({"expected": reference.traffic, "observed": other.traffic}),
        ));
    }
    if reference.exports != other.exports {
        return Some((
            "exports_differ_from_gc_off".into(),
            json!({"expected": reference.exports, "observed": other.exports}),
        ));
    }
    None
}

impl Check for C02 {
    type Scn = Scn;
    fn id(&self) -> &'static str {
        "C02"
    }
    fn rule(&self) -> String {
        "progGen programs (typed pool, natives with callbacks, classes, generators, proxies, JSON, Map/Set, try/finally, async helpers, host holes answered by the simulated host incl. errors and deferred promises) x 4-8 seeded collection schedules each (threshold in {1,2,3,5,7,13,100}, injected collections with p in {0.01,0.1,0.5}, burst windows placed by the reference allocation count, host-forced collect() after steps / at suspensions, mixtures); reference = same program and host tape with collection off. non-trivial = reference run is not a syntax error AND at least one perturbed run collected at least once; distinct = distinct hash of (program outcome digest, schedule list). Further strata: the author-written corpus (2446 snippets of tests/interpreter, 26 programs of examples/ with their module graphs) under the same schedules; sessions = histories of entry-module runs on ONE interpreter (lib / user / chain / solo modules with live bindings, default exports, generators, classes) in which the host keeps exports (host-guarded), calls kept functions after later runs, re-runs entry paths, forces collections and allocates; progGen also carries native matrix catalogues 1-3, register-only temporaries, values exported by expression (also in a provided dependency and next to a mid-body re-export from the internal source module lib:util), batch orders, host-called resolvers, Promise.all over then-derived members".into()
    }
    fn components(&self) -> Value {
        json!({"real": ["lexer", "parser", "compiler", "BytecodeVM", "Interpreter prepare/step/eval/fulfill_orders", "gc.rs", "builtins", "api.rs promise helpers"],
               "stub": ["host (order answers from a choice tape)", "ConsoleProvider", "TimeProvider (simulated clock)", "RandomProvider (seeded)", "collector schedule (H2 seam)"],
               "not_run": ["src/bin/tsrun.rs", "wasm", "ffi"]})
    }
    fn assumptions(&self) -> Vec<String> {
        vec![
            "nothing in tsrun is legitimately collection-dependent (no WeakRef/FinalizationRegistry); gc_stats is excluded from outcomes".into(),
            "a stale clone/drop of a handle is not alarmed; only a borrow through a stale handle is".into(),
        ]
    }

    fn generate(&self, rng: &mut Rng, _idx: usize, _tier: Tier) -> Scn {
        let with_holes = rng.chance(0.4);
        let holes = if with_holes { 1 + rng.below(4) } else { 0 };
        let mut cfg = GenCfg::swarm(rng, holes);
        cfg.size = 5 + rng.below(40);
        let variant = if !with_holes {
            HoleVariant::Sync
        } else if rng.chance(0.5) {
            HoleVariant::Order
        } else {
            HoleVariant::OrderDirect
        };
        let has_lib = cfg.f_lib;
        let mut case = ProgCase::generate(rng, cfg, variant, "v");
        if rng.chance(0.3) {
            case.module_path = Some("/p/main.ts".into());
        }
        if !has_lib && rng.chance(0.3) {
            // first use of the internal SOURCE module lib:util is a re-export in the middle of the
            // body (imports are hoisted, re-exports instantiate the module where they stand), right
            // after a value was exported by expression
            let at = 3.min(case.tree.kids.len());
            case.tree.kids.insert(at, Node::leaf(format!("export default {{ dflt: {}, l: [{{ m: 1 }}], deep: {{ v: 42, list: [1, 2, 3] }} }};\nexport {{ seed as lib_seed, mk as lib_mk }} from \"lib:util\";\nconst __after: any[] = [{{}}, {{ z: [1] }}];", rng.below(100))));
        } else if rng.chance(0.3) {
            // a value exported by expression has no binding: only the export table holds it
            // while the rest of the program allocates (script and module mode)
            let at = 3.min(case.tree.kids.len());
            case.tree.kids.insert(at, Node::leaf(format!("export default {{ dflt: {}, l: [{{ m: 1 }}] }};", rng.below(100))));
        }
        if case.module_path.is_some() && rng.chance(0.4) {
            // ... and the same inside a host-provided dependency, read back by the importer
            case.modules.insert(
                "/p/dep.ts".into(),
                "export default { a: 41, l: [{ b: 1 }] };\nexport const made: any = [{ c: 2 }].map((o: any) => ({ d: o.c }));\nconst junk: any[] = []; for (let i = 0; i < 24; i++) { junk.push({ i: i, s: \"x\" + i }); }\nexport const n: number = junk.length;".into(),
            );
            if let Some(first) = case.tree.kids.first_mut() {
                first.pre = format!("import __dflt, {{ n as __dn, made as __dmade }} from \"./dep.ts\";\n{}", first.pre);
            }
            let at = 3.min(case.tree.kids.len());
            case.tree.kids.insert(at, Node::leaf("__log.push(\"dep:\" + JSON.stringify(__dflt) + __dn + JSON.stringify(__dmade));"));
        }
        let n = 4 + rng.below(5);
        let schedules = (0..n).map(|_| random_gc(rng)).collect();
        let driver = if rng.chance(0.7) { Driver::Step } else { Driver::Eval };
        Scn {
            case,
            driver,
            schedules,
            tape: Tape::random(rng, 24),
            fuel: 400_000,
            session: None,
        }
    }

    fn generate_stream(&self, stream: &str, rng: &mut Rng, idx: usize, tier: Tier) -> Scn {
        if stream == "sessions" {
            let n = 3 + rng.below(4);
            let schedules = (0..n)
                .map(|_| {
                    let mut g = random_gc(rng);
                    // bursts are placed by the reference allocation count of ONE run: not meaningful here
                    if matches!(g.inject, Inject::WindowFrac { .. }) {
                        g.inject = Inject::Prob { pm: 100, seed: rng.next_u64() };
                    }
                    g
                })
                .collect();
            let dummy = ProgCase { tree: Node::leaf("0"), answers: Default::default(), variant: HoleVariant::Sync, module_path: None, modules: Default::default(), tags: vec!["session".into()] };
            return Scn { case: dummy, driver: Driver::Step, schedules, tape: Tape::from_vec(vec![]), fuel: 400_000, session: Some(gen_session(rng)) };
        }
        if stream != "corpus" {
            return self.generate(rng, idx, tier);
        }
        // author-written programs (tests/interpreter snippets, examples/ with their module graphs),
        // every entry in turn, under the same schedule space
        let c = crate::corpus::corpus();
        let total = c.snippets.len() + c.examples.len();
        let k = idx % total.max(1);
        let (e, fuel) = if k < c.snippets.len() { (&c.snippets[k], 400_000) } else { (&c.examples[k - c.snippets.len()], 1_500_000) };
        let mut case = e.to_case();
        if case.module_path.is_none() && !e.src.contains("import ") && rng.chance(0.25) {
            case.module_path = Some("/p/main.ts".into());
        }
        let n = 4 + rng.below(4);
        let schedules = (0..n).map(|_| random_gc(rng)).collect();
        let driver = if rng.chance(0.7) { Driver::Step } else { Driver::Eval };
        Scn { case, driver, schedules, tape: Tape::random(rng, 8), fuel, session: None }
    }

    fn shrink(&self, scn: &Scn) -> Vec<Scn> {
        let mut out = Vec::new();
        if let Some(sess) = &scn.session {
            if scn.schedules.len() > 1 {
                for g in &scn.schedules {
                    out.push(Scn { schedules: vec![g.clone()], ..scn.clone() });
                }
            }
            // drop one op (indices of kept values shift: only ops that keep nothing are dropped freely,
            // a Keep/Call is replaced by a Keep of a name that does not exist, which keeps the slot)
            for i in (0..sess.ops.len()).rev() {
                let mut s2 = sess.clone();
                match &sess.ops[i] {
                    SOp::Keep { name } if name == "-" => continue,
                    SOp::Keep { .. } | SOp::Call { .. } => s2.ops[i] = SOp::Keep { name: "-".into() },
                    _ => {
                        s2.ops.remove(i);
                    }
                }
                out.push(Scn { session: Some(s2), ..scn.clone() });
            }
            return out;
        }
        if scn.schedules.len() > 1 {
            for s in &scn.schedules {
                out.push(Scn { schedules: vec![s.clone()], ..scn.clone() });
            }
        }
        // convert a probabilistic / window schedule into its explicit injected set, then halve it
        if scn.schedules.len() == 1 {
            let g = &scn.schedules[0];
            match &g.inject {
                Inject::Explicit(v) if v.len() > 1 => {
                    let h = v.len() / 2;
                    for part in [v[..h].to_vec(), v[h..].to_vec()] {
                        let mut g2 = g.clone();
                        g2.inject = Inject::Explicit(part);
                        out.push(Scn { schedules: vec![g2], ..scn.clone() });
                    }
                    if v.len() <= 8 {
                        for i in 0..v.len() {
                            let mut p = v.clone();
                            p.remove(i);
                            let mut g2 = g.clone();
                            g2.inject = Inject::Explicit(p);
                            out.push(Scn { schedules: vec![g2], ..scn.clone() });
                        }
                    }
                }
                Inject::Prob { .. } | Inject::Window { .. } | Inject::WindowFrac { .. } => {
                    let reference = run_solo(&scn.case.spec(scn.driver, GcSched::off(), scn.tape.clone(), scn.fuel));
                    let _ = run_solo_hint(
                        &scn.case.spec(scn.driver, g.clone(), scn.tape.clone(), scn.fuel),
                        reference.counters.allocs,
                    );
                    let idx = crate::host::injected_indices();
                    if !idx.is_empty() {
                        let mut g2 = g.clone();
                        g2.inject = Inject::Explicit(idx);
                        // explicit lists serialise longer than the policy: force acceptance via size by
                        // also dropping the other knobs when possible
                        out.push(Scn { schedules: vec![g2], ..scn.clone() });
                    }
                }
                _ => {}
            }
            if g.threshold != 0 && g.inject != Inject::None {
                let mut g2 = g.clone();
                g2.threshold = 0;
                out.push(Scn { schedules: vec![g2], ..scn.clone() });
            }
            if g.force_step_pm != 0 || g.force_at_suspend {
                let mut g2 = g.clone();
                g2.force_step_pm = 0;
                g2.force_at_suspend = false;
                out.push(Scn { schedules: vec![g2], ..scn.clone() });
            }
        }
        for c in scn.case.shrink_tree() {
            out.push(Scn { case: c, ..scn.clone() });
        }
        if !scn.tape.v.is_empty() {
            out.push(Scn { tape: Tape::from_vec(Vec::new()), ..scn.clone() });
        }
        if scn.driver == Driver::Eval {
            out.push(Scn { driver: Driver::Step, ..scn.clone() });
        }
        out
    }

    fn execute(&self, scn: &Scn) -> RunReport {
        if let Some(sess) = &scn.session {
            let mut rep = RunReport::default();
            let (reference, rtot) = run_session(sess, &GcSched::off(), scn.fuel);
            rep.sim_instructions += rtot.counters.instructions;
            if std::env::var("TSIM_SHOW_SESSION").is_ok() {
                for l in &reference {
                    println!("  {}", l.chars().take(400).collect::<String>());
                }
            }
            let mut digest = format!("{:x}", crate::rng::hash_str(&reference.join("\n")));
            let mut any_collected = false;
            for (si, g) in scn.schedules.iter().enumerate() {
                let (trace, tot) = run_session(sess, g, scn.fuel);
                rep.sim_instructions += tot.counters.instructions;
                any_collected |= tot.counters.collections > 0;
                rep.bump("collections", tot.counters.collections);
                rep.bump("collections_injected", tot.counters.injected);
                rep.bump("collections_forced_by_host", tot.forced_collects);
                rep.bump("session_ops", sess.ops.len() as u64);
                rep.bump("session_host_calls_of_kept_functions", sess.ops.iter().filter(|o| matches!(o, SOp::Call { .. })).count() as u64);
                rep.bump("session_entry_runs", sess.ops.iter().filter(|o| matches!(o, SOp::Run { .. })).count() as u64);
                digest.push_str(&format!("|{:?}", g));
                if rep.failure.is_some() {
                    continue;
                }
                if trace != reference {
                    let first = reference.iter().zip(trace.iter()).position(|(a, b)| a != b).unwrap_or(reference.len().min(trace.len()));
                    rep.fail(Failure::new(
                        "session_trace_differs_from_gc_off",
                        trace.get(first).cloned().unwrap_or_default().chars().take(200).collect::<String>(),
                        json!({"schedule_index": si, "schedule": g, "first_differing_event": first, "expected": reference.get(first), "observed": trace.get(first), "reference_trace": reference}),
                    ));
                } else if !tot.stale.is_empty() {
                    rep.fail(Failure::new("stale_deref", tot.stale[0].clone(), json!({"schedule_index": si, "schedule": g, "stale": tot.stale})));
                }
            }
            rep.nontrivial = any_collected;
            rep.trace_hash = crate::rng::hash_str(&digest);
            return rep;
        }
        let mut rep = RunReport::default();
        let reference = run_solo(&scn.case.spec(scn.driver, GcSched::off(), scn.tape.clone(), scn.fuel));
        rep.sim_instructions += reference.counters.instructions;
        let syntax = reference.result.starts_with("error:SyntaxError");
        if syntax {
            rep.bump("reference_syntax_error", 1);
        }
        if reference.result.starts_with("complete:") {
            rep.bump("reference_completed", 1);
        } else if reference.result.starts_with("error:") {
            rep.bump("reference_uncaught_error", 1);
        } else {
            rep.bump("reference_other_end", 1);
        }
        if !reference.stale.is_empty() {
            rep.fail(Failure::new(
                "stale_deref_with_gc_off",
                reference.stale[0].clone(),
                json!({"stale": reference.stale}),
            ));
        }
        let mut digest = format!("{:x}", reference.digest());
        let mut any_collected = false;
        for (si, g) in scn.schedules.iter().enumerate() {
            let out = run_solo_hint(
                &scn.case.spec(scn.driver, g.clone(), scn.tape.clone(), scn.fuel),
                reference.counters.allocs,
            );
            rep.sim_instructions += out.counters.instructions;
            if out.counters.collections > 0 {
                any_collected = true;
            }
            rep.bump("collections", out.counters.collections);
            rep.bump("collections_injected", out.counters.injected);
            rep.bump("collections_forced_by_host", out.forced_collects);
            rep.bump("probe_collection_inside_native_callback", out.counters.collections_nested.min(1) * (scn.driver == Driver::Step) as u64
                + out.counters.collections_nested2.min(1) * (scn.driver == Driver::Eval) as u64);
            rep.bump("probe_collection_between_order_issue_and_answer", (out.forced_collects > 0 && out.orders_seen > 0) as u64);
            rep.bump("host_held_values_reread", out.held_values_reread);
            rep.bump("suspensions", out.suspensions);
            rep.bump("orders", out.orders_seen);
            rep.bump("error_answers", out.error_answers);
            rep.bump("deferred_settled", out.deferred_settled);
            rep.bump("idle_steps", out.idle_steps);
            rep.bump("stale_clones_or_drops_not_alarmed", out.counters.stale_clones + out.counters.stale_drops);
            digest.push_str(&format!("|{:?}", g));
            if rep.failure.is_some() {
                continue;
            }
            if let Some((clause, detail)) = compare(&reference, &out) {
                let obs = detail.get("observed").map(|v| v.to_string()).unwrap_or_default();
                let short: String = obs.chars().take(200).collect();
                rep.fail(Failure::new(
                    &clause,
                    short,
                    json!({"schedule_index": si, "schedule": g, "diff": detail, "injected_at": crate::host::injected_indices().into_iter().take(50).collect::<Vec<_>>()}),
                ));
            } else if let Some(ch) = &out.held_value_changed {
                rep.fail(Failure::new(
                    "host_held_value_changed",
                    ch.chars().take(200).collect::<String>(),
                    json!({"schedule_index": si, "schedule": g, "change": ch}),
                ));
            } else if !out.stale.is_empty() {
                rep.fail(Failure::new(
                    "stale_deref",
                    out.stale[0].clone(),
                    json!({"schedule_index": si, "schedule": g, "stale": out.stale}),
                ));
            }
        }
        rep.nontrivial = !syntax && any_collected;
        rep.trace_hash = crate::rng::hash_str(&digest);
        rep
    }
}
