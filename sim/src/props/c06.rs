//! C06 — The host keeps control: bounded steps, no script can abort the process.
//!
//! A simulated host with a watchdog on a simulated clock (the H3 instruction counter) drives the
//! real interpreter. In-process stratum: generated programs and loop/recursion templates on the
//! trampolined call paths; every step() must execute at most one VM instruction unless a native
//! re-entered the VM (recorded architectural finding), the host's step/depth budget must stop
//! the script with the interpreter still usable. Process stratum: resource-fault templates
//! (allocation sizes up to 2^53, recursion through every call path at depths up to 10^5, native
//! stack sizes 256 KiB..8 MiB, 4 GiB address-space cap) run in worker processes whose exit status
//! is the observation: no worker may die except for the (template, parameter, stack) cases listed
//! under the recorded findings.

use crate::framework::{Check, Failure, RunReport, Tier};
use crate::host::{Driver, GcSched, Run, RunSpec, new_interp};
use crate::proggen::{GenCfg, HoleVariant};
use crate::progscn::ProgCase;
use crate::rng::{Rng, Tape, hash_str};
use serde::{Deserialize, Serialize};
use serde_json::{Value, json};

#[derive(Clone, Debug, Serialize, Deserialize)]
pub struct ProcCase {
    pub template: String,
    pub param: u64,
    pub stack_kb: u64,
}

#[derive(Clone, Debug, Serialize, Deserialize)]
pub struct Scn {
    /// program text for the in-process stratum
    pub source: String,
    /// host watchdog: stop after this many steps
    pub step_budget: u64,
    /// host depth limit: stop when call_depth() exceeds it
    pub depth_limit: u64,
    pub answers_tape: Tape,
    pub case: Option<ProgCase>,
    /// process stratum case (replay of a dead worker)
    #[serde(default)]
    pub proc_case: Option<ProcCase>,
    /// execute in a child process (a script that overflows the native stack or aborts kills it)
    #[serde(default)]
    pub isolated: bool,
    /// automatic collection threshold of the run (a collection that lands inside a native must
    /// not turn into a panic either)
    #[serde(default = "default_gc_threshold")]
    pub gc_threshold: u32,
}

fn default_gc_threshold() -> u32 {
    100
}

pub struct C06;

/// A step that re-entered the VM may run this many instructions before it counts as unbounded.
pub const REENTRY_STEP_BOUND: u64 = 200_000;
/// Live heap bytes one in-process scenario may hold before the simulated host walks away.
pub const SCENARIO_MEMORY_BUDGET: i64 = 2 << 30;

pub fn loop_templates() -> Vec<(&'static str, String)> {
    let mut v: Vec<(&'static str, String)> = Vec::new();
    v.push(("for-ever", "let i = 0; for (;;) { i = (i + 1) % 1000; }".into()));
    v.push(("while-true", "let s = 0; while (true) { s = (s + 3) % 7; }".into()));
    v.push(("do-while", "let s = 0; do { s++; } while (s > -1);".into()));
    v.push(("self-recursion", "function f(n: number): number { return f(n + 1) + 1; } f(0);".into()));
    v.push(("mutual-recursion", "function a(n: number): number { return b(n + 1); } function b(n: number): number { return a(n + 1); } a(0);".into()));
    v.push(("method-recursion", "class C { m(n: number): number { return this.m(n + 1); } } new C().m(0);".into()));
    v.push(("ctor-recursion", "class D { k: any; constructor(n: number) { this.k = new D(n + 1); } } new D(0);".into()));
    v.push(("async-recursion", "async function g(n: number): Promise<number> { return (await g(n + 1)) + 1; } await g(0);".into()));
    v.push(("arrow-recursion", "const h = (n: number): number => h(n + 1); h(0);".into()));
    v.push(("loop-in-callee", "function spin(): void { for (;;) {} } function outer(): void { spin(); } outer();".into()));
    v.push(("generator-forever", "function* gen(): any { let i = 0; while (true) { yield i++; } } const it = gen(); let t = 0; for (;;) { t = it.next().value; }".into()));
    v.push(("try-finally-loop", "for (;;) { try { continue; } finally { } }".into()));
    v.push(("labelled", "outer: for (;;) { for (;;) { continue outer; } }".into()));
    v.push(("bound-loop", "const spin = function (this: any): void { for (;;) {} }.bind({ a: 1 }); spin();".into()));
    v.push(("bound-recursion", "function f(n: number): number { return g(n + 1); } const g = f.bind(null); g(0);".into()));
    v.push(("bound-method-recursion", "class B { m(n: number): number { const k = this.m.bind(this); return k(n + 1); } } new B().m(0);".into()));
    v.push(("spread-call-recursion", "function sp(...a: number[]): number { return sp(...a, 1).valueOf(); } sp(0);".into()));
    v.push(("super-method-recursion", "class P { m(n: number): number { return n; } } class Q extends P { m(n: number): number { return super.m(n) + this.m(n + 1); } } new Q().m(0);".into()));
    v.push(("derived-ctor-recursion", "class R { constructor(n: number) {} } class S extends R { k: any; constructor(n: number) { super(n); this.k = new S(n + 1); } } new S(0);".into()));
    v.push(("default-param-recursion", "function dp(n: number, m: number = dp(n + 1)): number { return m; } dp(0);".into()));
    v.push(("optional-call-loop", "const oc: any = { f(n: number): number { return oc.f?.(n + 1); } }; oc.f(0);".into()));
    v.push(("closure-loop", "const mk = (): any => () => { for (;;) {} }; mk()();".into()));
    v.push(("switch-loop", "let z = 0; for (;;) { switch (z % 3) { case 0: z++; break; default: z += 2; } }".into()));
    v.push(("for-of-array-loop", "const big: number[] = [1, 2, 3]; for (;;) { for (const x of big) { if (x > 5) break; } }".into()));
    v.push(("for-in-loop", "const ob: any = { a: 1, b: 2 }; for (;;) { for (const k in ob) { if (k === 'z') break; } }".into()));
    v.push(("template-call-loop", "const tf = (n: number): string => `${n}`; let q = ''; for (;;) { q = `${tf(1)}`; }".into()));
    v.push(("async-loop", "async function al(): Promise<void> { for (;;) { await 1; } } await al();".into()));
    v
}

impl Check for C06 {
    type Scn = Scn;
    fn id(&self) -> &'static str {
        "C06"
    }
    fn rule(&self) -> String {
        "in-process: generated progGen programs and 13 unbounded loop/recursion templates on trampolined call paths (plain, mutual, method, constructor, async, arrow, callee loops, generators, try/finally, labels), stepped by a host with a seeded step budget and call-depth limit; per step the H3 instruction counter must advance by at most 1 unless a native re-entered the VM, a re-entering step must stay under a fixed bound, the budget must stop the run and a follow-up program must complete. process stratum: 10 allocation-size templates x 10 sizes up to 2^53 and 12 recursion call paths x depths {100,1000,10000,100000} x native stacks {256 KiB, 1 MiB, 8 MiB}, each in a worker process under a 4 GiB address-space cap: exit status is the observation. non-trivial = the watchdog (budget or depth limit) actually fired, or the case ran in a worker; distinct = distinct (program digest, budget) / (template, parameter, stack). The in-process stratum also holds the native-argument sweep (about 340 call shapes x boundary arguments; catalogue 3: ill-behaved comparators on arrays of 21-64 elements, coercion hooks that write to their receiver, cyclic prototype chains, structuredClone of Map/Set graphs, promise adoption, catastrophic regular-expression backtracking) under automatic collection thresholds 1-100, run in worker processes with a CPU-time watchdog: 15 CPU seconds inside ONE step (heartbeat standing still) is a violation".into()
    }
    fn components(&self) -> Value {
        json!({"real": ["Interpreter::step / call_depth", "BytecodeVM trampoline", "natives that re-enter the VM", "allocation paths of Array/String builtins"],
               "stub": ["host watchdog on the simulated clock (H3 instruction counter, fuel)", "worker processes with ulimit -v and explicit thread stack sizes"],
               "not_run": ["tsrun CLI --timeout (reads a real clock)"]})
    }
    fn assumptions(&self) -> Vec<String> {
        vec![
            "natives re-enter the VM by design (call_function -> vm.run): a step that re-entered is judged only against the fixed re-entry bound; unbounded loops inside callbacks are recorded finding KF-C06-1 and are not generated in the search".into(),
            "the process stratum judges only whether the worker process survives; which error a refused size produces is not constrained".into(),
        ]
    }

    fn generate(&self, rng: &mut Rng, idx: usize, _tier: Tier) -> Scn {
        if idx % 4 == 1 {
            return Scn {
                source: native_args_program(rng),
                step_budget: 3_000_000,
                depth_limit: 1_000_000,
                answers_tape: Tape::from_vec(vec![]),
                case: None,
                proc_case: None,
                isolated: false, gc_threshold: *rng.pick(&[100u32, 100, 1, 3, 7])
            };
        }
        let templates = loop_templates();
        if idx % 4 == 0 {
            let (_, src) = &templates[rng.below(templates.len())];
            return Scn {
                source: src.clone(),
                step_budget: *rng.pick(&[50u64, 1_000, 20_000, 200_000]),
                depth_limit: *rng.pick(&[50u64, 1_000, 100_000]),
                answers_tape: Tape::from_vec(vec![]),
                case: None,
                proc_case: None,
                isolated: false, gc_threshold: 100
            };
        }
        let holes = if rng.chance(0.4) { 1 + rng.below(3) } else { 0 };
        let mut cfg = GenCfg::swarm(rng, holes);
        cfg.size = 5 + rng.below(35);
        let variant = if holes == 0 { HoleVariant::Sync } else { HoleVariant::Order };
        let case = ProgCase::generate(rng, cfg, variant, "v");
        Scn {
            source: case.source(),
            step_budget: *rng.pick(&[200u64, 5_000, 100_000, 3_000_000]),
            depth_limit: 1_000_000,
            answers_tape: Tape::random(rng, 16),
            case: Some(case),
            proc_case: None,
            isolated: false, gc_threshold: *rng.pick(&[100u32, 100, 1, 13])
        }
    }

    fn shrink(&self, scn: &Scn) -> Vec<Scn> {
        let mut out = Vec::new();
        if let Some(c) = &scn.case {
            for t in c.shrink_tree() {
                out.push(Scn { source: t.source(), case: Some(t), ..scn.clone() });
            }
        } else if scn.source.contains("\ntry { __log.push(S(") {
            // native-argument sweep: drop one call
            let lines: Vec<&str> = scn.source.lines().collect();
            for i in 0..lines.len() {
                if lines[i].starts_with("try { __log.push(S(") {
                    let mut l = lines.clone();
                    l.remove(i);
                    out.push(Scn { source: l.join("\n") + "\n", ..scn.clone() });
                }
            }
        }
        out
    }

    fn execute(&self, scn: &Scn) -> RunReport {
        let mut rep = RunReport::default();
        if scn.isolated {
            return run_isolated(scn);
        }
        if let Some(pc) = &scn.proc_case {
            let r = run_proc_case(pc);
            if r.starts_with("DIED") {
                rep.fail(Failure::new("worker_process_died", r.clone(), json!({"case": pc, "result": r})));
            }
            rep.nontrivial = true;
            rep.trace_hash = hash_str(&r);
            return rep;
        }
        tsrun::verif::reset();
        tsrun::verif::set_fuel(Some(4_000_000));
        let mut h = new_interp(0, 1);
        let spec = RunSpec {
            source: scn.source.clone(),
            path: None,
            modules: Default::default(),
            answers: scn.case.as_ref().map(|c| c.answers.clone()).unwrap_or_default(),
            driver: Driver::Step,
            gc: GcSched::threshold(scn.gc_threshold),
            tape: scn.answers_tape.clone(),
            fuel: 4_000_000,
            clock_start: 0,
            random_seed: 1,
            withhold_imports: false,
            linked_promises: false,
            host_activity_pm: 0,
            internal_sources: Default::default(), stale_answer_ids: Vec::new(), stub_then_real: false,
        };
        let mut run = Run::new(spec);
        let mut stopped_by: Option<&str> = None;
        let mut max_depth = 0usize;
        let mem0 = crate::memcount::live_bytes();
        loop {
            if run.out.steps >= scn.step_budget {
                stopped_by = Some("step-budget");
                break;
            }
            // memory budget (this thread's own live bytes: a deterministic function of the
            // scenario): a host that meters memory walks away like one that meters steps
            if run.out.steps % 512 == 0 && crate::memcount::live_bytes() - mem0 > SCENARIO_MEMORY_BUDGET {
                stopped_by = Some("memory-budget");
                break;
            }
            let d = h.interp.call_depth();
            if d > max_depth {
                max_depth = d;
            }
            if d as u64 > scn.depth_limit {
                stopped_by = Some("depth-limit");
                break;
            }
            if !run.advance(&mut h) {
                break;
            }
        }
        run.finalize(&mut h);
        let o = &run.out;
        if std::env::var_os("TSIM_C06_DEBUG").is_some() {
            eprintln!("c06: stopped_by={:?} steps={} max_depth={} live_delta={} result={}", stopped_by, o.steps, max_depth, crate::memcount::live_bytes() - mem0, o.result.chars().take(80).collect::<String>());
        }
        rep.sim_instructions = tsrun::verif::instructions();
        rep.bump("steps", o.steps);
        rep.bump("steps_with_native_reentry", o.steps_with_reentry);
        rep.bump("stopped_by_step_budget", (stopped_by == Some("step-budget")) as u64);
        rep.bump("stopped_by_depth_limit", (stopped_by == Some("depth-limit")) as u64);
        rep.bump("stopped_by_memory_budget", (stopped_by == Some("memory-budget")) as u64);
        rep.bump("probe_call_depth_over_1000", (max_depth > 1000) as u64);
        if o.max_step_instr_no_reentry > 1 {
            rep.fail(Failure::new(
                "step_runs_more_than_one_instruction",
                format!("{} instructions in one step() without native re-entry", o.max_step_instr_no_reentry),
                json!({"max_step_instr_no_reentry": o.max_step_instr_no_reentry, "steps": o.steps}),
            ));
        } else if o.max_step_instr > REENTRY_STEP_BOUND {
            rep.fail(Failure::new(
                "step_unbounded_through_native_reentry",
                format!("{} instructions in one step()", o.max_step_instr),
                json!({"max_step_instr": o.max_step_instr, "bound": REENTRY_STEP_BOUND, "result": o.result}),
            ));
        } else if tsrun::verif::fuel_exhausted() && stopped_by.is_none() {
            // the fuel is far above every budget: running into it means the host never got control back
            rep.fail(Failure::new(
                "host_budget_did_not_stop_the_run",
                o.result.clone(),
                json!({"steps": o.steps, "budget": scn.step_budget}),
            ));
        }
        // the interpreter is still usable after the host walked away
        if stopped_by.is_some() && rep.failure.is_none() {
            tsrun::verif::set_fuel(Some(100_000));
            let follow = crate::props::c11::run_to_end(
                &mut h,
                RunSpec {
                    source: "let q: number = 0; for (let i = 0; i < 5; i++) { q += i; } q".into(),
                    path: None,
                    modules: Default::default(),
                    answers: Default::default(),
                    driver: Driver::Step,
                    gc: GcSched::threshold(100),
                    tape: Tape::from_vec(vec![]),
                    fuel: 100_000,
                    clock_start: 0,
                    random_seed: 1,
                    withhold_imports: false,
                    linked_promises: false,
                    host_activity_pm: 0,
                    internal_sources: Default::default(), stale_answer_ids: Vec::new(), stub_then_real: false,
                },
            );
            if follow.result != "complete:10" {
                rep.fail(Failure::new(
                    "interpreter_unusable_after_host_stopped_the_script",
                    follow.result.clone(),
                    json!({"stopped_by": stopped_by, "follow_up": follow.result}),
                ));
            }
        }
        tsrun::verif::set_fuel(None);
        rep.nontrivial = stopped_by.is_some();
        rep.trace_hash = hash_str(&format!("{}|{}|{:?}", scn.source, scn.step_budget, stopped_by));
        rep
    }
}

// ───────────────────────────── native argument sweep ─────────────────────────────

/// Index-like arguments: every position, count, radix or code-point parameter may receive these.
const IDX: [&str; 30] = [
    "0", "1", "-1", "2", "3", "5", "-5", "0.5", "-0.5", "1.5", "NaN", "Infinity", "-Infinity", "2 ** 31", "-(2 ** 31)", "2 ** 31 - 1",
    "2 ** 32", "2 ** 32 - 1", "2 ** 53", "-(2 ** 53)", "2 ** 63", "-(2 ** 63)", "1e21", "-1e21", "undefined", "null", "\"2\"", "true", "-0", "0x10FFFF + 1",
];
/// Size-like arguments (lengths, repeat counts, pad targets): small only; huge sizes are the
/// allocation cases of the process stratum.
const SIZE: [&str; 12] = ["0", "1", "2", "5", "17", "64", "-1", "0.5", "NaN", "-Infinity", "undefined", "-(2 ** 31)"];
const STRS: [&str; 12] = [
    "\"abc\"", "\"\"", "\"é\"", "\"日本語テキスト\"", "\"a😀b\"", "\"x-y-z\"", "\"  pad  \"", "\"ÀÉÎõü\"", "\"a\\u0301\"", "\"0123456789\"", "\"\\ud800\"", "\"ab\".repeat(9)",
];
const ARRS: [&str; 8] = ["[1, 2, 3]", "[]", "[1, [2, [3, [4]]]]", "[\"b\", \"a\", \"é\"]", "[1, , 3]", "[{ v: 1 }, { v: 2 }]", "Array.from(\"日本\")", "[0, -0, NaN, undefined, null]"];
const LONGS: [&str; 5] = [
    "\"x\".repeat(21).split(\"\").map((_: any, i: number) => (i * 7) % 11)",
    "\"x\".repeat(33).split(\"\").map((_: any, i: number) => (i * 13) % 17)",
    "\"x\".repeat(64).split(\"\").map((_: any, i: number) => 64 - i)",
    "\"x\".repeat(48).split(\"\").map((_: any, i: number) => (i * 37) % 49)",
    "\"x\".repeat(40).split(\"\").map((_: any, i: number) => ({ v: (i * 5) % 7 }))",
];
const CMPS: [&str; 12] = [
    "() => 1", "() => -1", "(a: any, b: any) => (((Number(a) || 0) * 7 + (Number(b) || 0) * 13) % 5) - 2", "() => NaN", "(a: any, b: any) => a < b ? 1 : 1",
    "(() => { let t = 0; return () => (t++ % 3) - 1; })()", "() => Math.random() - 0.5", "(a: any, b: any) => { if (a === b) { throw new Error(\"cmp\"); } return 0; }",
    "() => undefined as any", "() => ({} as any)", "() => \"1\" as any", "(a: any, b: any) => b - a",
];
const HOOKED: [&str; 7] = [
    "({ valueOf() { return {}; }, toString() { (this as any).x = 1; return \"7\"; } } as any)",
    "({ [Symbol.toPrimitive]() { (this as any).y = 2; return 3; } } as any)",
    "({ valueOf() { (this as any).z = 1; delete (this as any).z; return 4; } } as any)",
    "({ toString() { return {}; }, valueOf() { return {}; } } as any)",
    "({ valueOf() { Object.defineProperty(this, \"valueOf\", { value: () => 9 }); return 5; }, toString() { return \"s\"; } } as any)",
    "({ toString() { Object.setPrototypeOf(this, null); return \"np\"; } } as any)",
    "({ get valueOf() { (this as any).g = 1; return () => 6; } } as any)",
];
const NUMS: [&str; 16] = ["0", "-0", "1", "255", "0.5", "-1.5", "NaN", "Infinity", "-Infinity", "2 ** 53", "-(2 ** 53)", "2 ** 63", "-(2 ** 63)", "1e21", "1e-7", "123.456"];

/// Calls of natives with boundary arguments: `@S` string, `@A` array, `@N` number, `@I` index-like,
/// `@Z` size-like. Every call must end in a value or a catchable error.
const NATIVE_CALLS: &[&str] = &[
    "@S.at(@I)", "@S.charAt(@I)", "@S.charCodeAt(@I)", "@S.codePointAt(@I)", "@S.slice(@I, @I)", "@S.substring(@I, @I)", "@S.substr(@I, @I)",
    "@S.padStart(@Z, @S)", "@S.padEnd(@Z, @S)", "@S.padStart(@Z)", "@S.repeat(@Z)", "@S.indexOf(@S, @I)", "@S.lastIndexOf(@S, @I)", "@S.includes(@S, @I)",
    "@S.startsWith(@S, @I)", "@S.endsWith(@S, @I)", "@S.split(@S, @I)", "@S.split(\"\", @I)", "@S.normalize(@S)", "@S.normalize(\"NFD\")", "@S.localeCompare(@S)",
    "@S.trim().trimStart().trimEnd()", "@S.toUpperCase().toLowerCase()", "@S.replace(@S, @S)", "@S.replaceAll(@S, @S)", "@S.replace(/./gu, @S)", "@S.match(/(.)(.)?/)", "@S.search(/.$/)",
    "@S.concat(@S, @N)", "String.fromCharCode(@I, @I)", "String.fromCodePoint(@I)", "@S[@I]", "@S.length = @I", "[...@S].length", "@S.split(/(?:)/u).length",
    "@A.at(@I)", "@A.slice(@I, @I)", "@A.splice(@I, @I)", "@A.splice(@I, @I, 9, 8)", "@A.toSpliced(@I, @I)", "@A.fill(7, @I, @I)", "@A.copyWithin(@I, @I, @I)",
    "@A.indexOf(1, @I)", "@A.lastIndexOf(1, @I)", "@A.includes(1, @I)", "@A.flat(@Z)", "@A.join(@S)", "@A.with(@I, 5)", "@A.concat(@A, @N)", "@A.reverse()",
    "@A.sort()", "@A.toSorted()", "@A.toReversed()", "((t: any[]) => { t.length = @Z; return t; })(@A)", "((t: any[]) => { t[@Z] = 1; return t.length; })(@A)",
    "new Array(@Z)", "new Array(@Z).fill(0)", "Array.from({ length: @Z })", "Array(@Z).join(\"-\")", "@A.findLast((x: any) => x === @N)", "@A.keys().next()", "@A.entries().next()",
    "(@N).toString(@I)", "(@N).toFixed(@I)", "(@N).toPrecision(@I)", "(@N).toExponential(@I)", "(@N).toString()", "parseInt(@S, @I)", "parseFloat(@S)", "Number(@S)",
    "Number.isInteger(@N)", "Number.isSafeInteger(@N)", "Math.round(@N)", "Math.trunc(@N) % @N", "Math.max(@N, @N) | 0", "(@N) >>> @I", "(@N) << @I", "(@N) ** @N", "Math.hypot(@N, @N)",
    "Math.clz32 ? Math.clz32(@N) : 0", "Math.sign(@N)", "Math.cbrt(@N)", "Math.atan2(@N, @N)",
    "new Date(@N).toISOString()", "new Date(@N).getTime()", "new Date(@N).toString().length", "new Date(@N).toJSON()", "new Date(@N, @I).getMonth()", "new Date(2020, @I, @I).getDate()",
    "Date.UTC(@N, @I, @I)", "new Date(0).setMonth(@I)", "new Date(0).setFullYear(@N)", "new Date(0).setHours(@N, @N)", "new Date(0).setDate(@N)", "new Date(@S).getTime()",
    "JSON.stringify(@A, null, @I)", "JSON.stringify({ a: @N, b: @S }, null, @S)", "JSON.parse(@S)", "JSON.parse(JSON.stringify(@S))", "JSON.stringify(@N)",
    "new RegExp(@S)", "new RegExp(@S, @S)", "((r: RegExp) => { r.lastIndex = @I; return r.exec(@S); })(/./g)", "((r: RegExp) => { r.lastIndex = @I; return r.test(@S); })(/é/y)",
    "/(a)|(b)/.exec(@S)", "@S.matchAll(/./g).next()", "Object.keys(@S)", "Object.entries(@A)", "Object.fromEntries([[@S, @N]])", "Object.defineProperty({}, @S, { value: @N, enumerable: true })",
    "new Map([[@N, @S]]).get(@N)", "new Set(@A).has(@N)", "structuredClone(@A)", "Symbol(@S).toString()", "Symbol.for(@S).description", "[@N, @N].sort((a: number, b: number) => a - b)",
    "`${@N}|${@S}|${@A}`", "@S + @N + @A", "(@N) + (@N)", "@S < @S", "encodeURIComponent ? encodeURIComponent(@S) : 0", "@S.codePointAt(@I)?.toString(16)",
    "Number.parseFloat(@S).toFixed(2)", "(@N).toLocaleString()", "String(@A)", "isNaN(@S as any)", "Array.isArray(@A.flat(@Z))", "@A.map(String).join().length",
    // objects, reflection, collections, functions, iterators
    "Object.getOwnPropertyNames(@S)", "Object.getOwnPropertyDescriptor(@A, @I)", "Object.getOwnPropertyDescriptors(@S)", "Object.assign([], @S, @A)", "Object.assign({}, @N, @S)",
    "Object.create(null, { a: { value: @N, enumerable: true } })", "Object.create(@A)", "Object.setPrototypeOf({}, @A)", "Object.getPrototypeOf(@N)", "Object.freeze(@A).length",
    "Object.defineProperty([], \"length\", { value: @Z })", "Object.defineProperty(@A, @Z, { value: 1 })", "Object.defineProperty({}, \"a\", { get: @N as any })", "Object.defineProperties({}, @A as any)",
    "Object.entries(@S).length", "Object.values(@N)", "Object.fromEntries(@A as any)", "Object.fromEntries(@S as any)", "Object.groupBy(@A, (x: any) => String(x))", "Object.is(@N, @N)", "Object.hasOwn(@A, @I)",
    "Reflect.ownKeys(@A)", "Reflect.get(@A, @I)", "Reflect.set(@A, @Z, 1)", "Reflect.has(@A, @I)", "Reflect.deleteProperty(@A, @I)", "Reflect.apply(Math.max, null, @A)", "Reflect.apply(@S.slice, @S, [@I, @I])",
    "Reflect.construct(Array, [@Z])", "Reflect.construct(Date, @A)", "Reflect.getPrototypeOf(@A)", "Reflect.defineProperty({}, @S, { value: @N })",
    "new Map(@A as any)", "new Map([[@A, @N]]).size", "new Set(@S).size", "new Set(@A).add(@N).size", "new Map().set(@N, @S).get(@N)", "[...new Map([[@N, @S]]).entries()]", "new Set([@N, @N, @N]).size",
    "new Map([[@N, 1]]).delete(@N)", "new Set(@A).delete(@N)", "Array.from(new Set(@S))", "Array.from(@S, (c: string, i: number) => c + i)", "Array.from(@A, @N as any)", "Array.from(@N as any)",
    "Array.of(@N, @S).length", "Array.prototype.slice.call(@S, @I, @I)", "Array.prototype.map.call(@S, (c: string) => c)", "Array.prototype.join.call({ length: @Z, 0: \"a\" }, @S)", "Array.prototype.indexOf.call(@S, @S)",
    "String.prototype.slice.call(@N, @I)", "String.prototype.padStart.call(@N, @Z, @S)", "String.prototype.at.call(@A, @I)", "String.raw({ raw: @A } as any, @N, @S)", "String.raw({ raw: @S } as any, @N)",
    "Function.prototype.call.call(Math.abs, null, @N)", "Math.max.apply(null, @A as any)", "Math.min(...@A as any)", "((...r: any[]) => r.length)(...@S)", "(function (a: any, b: any) { return arguments.length; }).apply(null, @A)",
    "(function () { return arguments[@I]; })(1, 2)", "((a: any = @N, b: any = a) => [a, b])()", "new (class { v: any = @N; static s: any = @S; })().v", "(() => { const { a = @N, ...r }: any = { b: @S }; return [a, r]; })()",
    "(([x, y = @N, ...r]: any) => [x, y, r])(@A)", "(([x, y]: any) => [x, y])(@S)", "(() => { const [a, b]: any = new Set(@A); return [a, b]; })()", "(() => { for (const c of @S) { return c; } return 0; })()",
    "(() => { let n = 0; for (const k in @A) { n++; } return n; })()", "(() => { let n = 0; for (const k in (@S as any)) { n++; } return n; })()", "@A.entries().next().value", "@S[Symbol.iterator]().next()", "@A[Symbol.iterator]().next().value",
    "Symbol(@N as any).description", "Symbol.keyFor(Symbol.for(@S))", "Symbol.for(@S) === Symbol.for(@S)", "typeof Symbol.iterator", "({ [Symbol.toPrimitive]: () => @N } as any) + 1", "`${({ toString: () => @S })}`",
    "@N + ({ valueOf: () => @N } as any)", "(@S as any) * (@N)", "(@S as any) - (@A as any)", "(@A as any) + (@A as any)", "(@N) / (@N)", "(@N) % (@N)", "~(@N)", "!(@S)", "typeof (@A)", "void (@N)",
    "(@N) | (@N)", "(@N) & (@N)", "(@N) ^ (@N)", "(@N) >> @I", "(@S) == (@N as any)", "(@A as any) == (@S as any)", "(@N) === (@N)", "(@S) <= (@S)", "(@A as any) > (@N as any)", "(@S) in ({ a: 1 } as any) ? 1 : 0",
    "(@A) instanceof Array", "(@N as any) instanceof Number", "(@S as any)?.length?.toFixed(@I)", "(@A as any)?.[@I]?.x", "(@N as any) ?? @S", "delete (@A as any)[@I]", "((o: any) => { o[@S] = @N; return Object.keys(o); })({})",
    "((o: any) => { o[@Z] = 1; return o.length; })([])", "((o: any) => { o.length = @Z; o.push(1); return o.length; })([1, 2])", "((o: any) => { o[@N] = 1; return JSON.stringify(o); })({})",
    "Error(@S).message", "new Error(@S, { cause: @A }).cause", "new TypeError(@N as any).message", "new RangeError(@S).stack?.length", "String(new Error(@S))", "Object.prototype.toString.call(@A)", "Object.prototype.toString.call(@N)",
    "Number.prototype.toFixed.call(@N, @I)", "Number.prototype.toString.call(@S as any, @I)", "Boolean(@S) && Boolean(@A)", "Number(@A as any)", "BigInt === undefined ? 0 : 1", "parseInt(@S)", "Number.parseInt(@S, @I)",
    "isFinite(@N)", "Number.isNaN(@S as any)", "Math.floor(@N) + Math.ceil(@N)", "Math.pow(@N, @N)", "Math.log2(@N) + Math.log10(@N)", "Math.fround(@N)", "Math.imul(@N, @N)", "Math.min() + Math.max()", "Math.abs(@S as any)",
    "new Date(@I, @I, @I, @I, @I, @I, @I).getTime()", "new Date(@S).toISOString()", "Date.parse(@S)", "new Date(@N).getTimezoneOffset?.()", "new Date(@N).toLocaleDateString?.()", "new Date(@N).getDay()", "new Date(@N).getUTCHours()",
    "new Date(0).setMinutes(@N, @N, @N)", "new Date(0).setSeconds(@N)", "new Date(0).setMilliseconds(@N)", "new Date(0).setTime(@N)", "new Date(@N).valueOf() === @N", "new Date(new Date(@N)).getTime()", "Date.UTC(@I)",
    "JSON.stringify(@S)", "JSON.stringify({ a: [@N, @S, @A] }, (k: string, v: any) => v)", "JSON.stringify(@A, [@S, @I] as any)", "JSON.stringify({ toJSON: () => @N })", "JSON.parse(@S, (k: string, v: any) => v)", "JSON.parse(\"[1e999, -1e999, 1e-999]\")",
    "JSON.parse(\"\\\"\\\\ud800\\\"\")", "JSON.stringify(\"\\ud800\")", "JSON.stringify({ [@S]: @N })", "JSON.stringify([undefined, () => 1, Symbol(\"s\")])", "JSON.rawJSON ? JSON.rawJSON(@S as any) : 0", "JSON.isRawJSON ? JSON.isRawJSON(@A) : 0",
    "new RegExp(@S, \"g\").exec(@S)", "new RegExp(\"(?<n>\" + @S + \")\")", "@S.replace(new RegExp(@S, \"g\"), \"$&$1$<n>$`$'\")", "@S.replace(/(?<c>.)/gu, \"$<c>$<c>\")", "@S.replaceAll(/./g, (m: string, o: number) => m + o)", "@S.split(/(.)/, @I)",
    // catalogue 3: callbacks with ill-behaved results over inputs past small-size fast paths (@L long
    // array, @C comparator), coercion hooks that write to their receiver (@O), prototype cycles
    "@L.sort(@C).length", "@L.toSorted(@C).length", "@L.sort(@C).slice(0, 3)", "@L.map(String).sort(@C).length", "@L.slice(0, 30).concat(@L.slice(0, 26)).sort(@C).length", "@L.sort().length", "@L.toSorted().slice(-2)",
    "@L.findLastIndex((x: any) => x === @N)", "@L.reduceRight((p: any, c: any) => p + c, 0)", "@L.flatMap((x: any) => [x, [x]]).length", "@L.join(@S).length", "@L.indexOf(@N, @I)", "@L.with(@I, 1).length", "@L.toSpliced(@I, @I, 1, 2).length",
    "+@O", "`${@O}`", "@O + \"\"", "@O < 1", "[@O, @O].join()", "String(@O)", "Number(@O)", "@O == 7", "({ a: 1 } as any)[@O]", "new Date(@O as any).getTime()", "Math.max(@O as any, 1)", "\"abc\".slice(@O as any)", "[1, 2, 3].at(@O as any)", "@O * @O", "JSON.stringify(@O)", "isNaN(@O as any)", "parseInt(@O as any)",
    "((a: any, b: any) => { try { Object.setPrototypeOf(a, b); Object.setPrototypeOf(b, a); } catch (e: any) { return \"refused:\" + e.name; } return String(a.nope) + (\"nope\" in a); })({}, {})",
    "((a: any) => { try { Object.setPrototypeOf(a, a); } catch (e: any) { return \"refused:\" + e.name; } return String(a.nope); })({})",
    "((a: any, b: any, c: any) => { try { a.__proto__ = b; b.__proto__ = c; c.__proto__ = a; } catch (e: any) { return \"refused:\" + e.name; } return String(a.nope) + Object.keys(a).length; })({}, {}, {})",
    "((a: any, b: any) => { try { Reflect.setPrototypeOf(a, b); Reflect.setPrototypeOf(b, a); } catch (e: any) { return \"refused:\" + e.name; } return String(a.toString === undefined); })({}, {})",
    "((a: any, b: any) => { try { Object.setPrototypeOf(a, b); Object.setPrototypeOf(b, a); } catch (e: any) { return \"refused:\" + e.name; } return a instanceof Array; })({}, {})",
    "(() => { let n = 0; for (let s = 1; s <= 12; s++) { let t = s + @I; const rnd = () => { t = (Math.abs(t | 0) * 1103515245 + 12345) % 2147483648; return t / 2147483648; }; const a: number[] = \"x\".repeat(20 + s * 3).split(\"\").map((_: any, i: number) => i); a.sort(() => rnd() - 0.5); n += a.length; } return n; })()",
    "(() => { let n = 0; for (let s = 2; s <= 9; s++) { const a: number[] = \"x\".repeat(19 + s * 5).split(\"\").map((_: any, i: number) => (i * s) % 13); a.sort((x: number, y: number) => ((x * 7 + y * s) % 5) - 2); n += a[0] + a.length; } return n; })()",
    "(() => { let n = 0; for (let s = 1; s <= 8; s++) { let k = 0; const a: any[] = \"x\".repeat(24 + s * 4).split(\"\").map((_: any, i: number) => ({ v: (i * 11) % (s + 6) })); const b: any[] = a.toSorted((x: any, y: any) => (k++ % (s + 1)) - 1); n += b.length + a.length; } return n; })()",
    "structuredClone(new Map<any, any>([[{ a: 1 }, { b: [1, 2] }], [\"k\", [3, { c: @N }]], [@N, @S]])).size", "structuredClone(new Set<any>([{ a: 1 }, [2, 3], @A, @S])).size", "structuredClone({ m: new Map([[1, { x: @A }]]), s: new Set([@A]), d: new Date(0), r: /x/g, e: new Error(@S) }).m.size",
    "structuredClone([new Map([[@S, new Set([{ deep: @A }])]])])[0].size", "JSON.stringify([...structuredClone(new Map([[{ k: 1 }, new Map([[{ k: 2 }, @A]])]])).entries()])",
    "/^(?:(?=a)a+)+$/.test(\"a\".repeat(30) + \"!\")", "(\"a\".repeat(28) + \"!\").replace(/^(a+)+\\1$/, \"x\").length", "/(x+x+)+y/.test(\"x\".repeat(28))", "/^(\\w+\\s?)*$/.test(\"word \".repeat(8) + \"!\")", "(\"ab\".repeat(14) + \"c\").match(/^((?!c)(a|b)+)+$/)",
    "(() => { let res: any; const p: any = new Promise((r: any) => { res = r; }); const q: any = Promise.resolve(@N); p.then(() => { q.x = 1; }); res(q); return String(q.x); })()",
    "(() => { let rej: any; const p: any = new Promise((_: any, r: any) => { rej = r; }); const q: any = Promise.reject(@S); q.catch(() => 0); p.catch(() => { q.y = [1]; }); rej(q); return typeof q.y; })()",
    "(() => { const q: any = Promise.resolve(@A); const p: any = Promise.resolve(q); p.then((v: any) => { q.z = v; (p as any).w = 1; }); return typeof q.z; })()",
    "(() => { const t: any = { then(ok: any) { (t as any).hit = 1; ok(@N); } }; const p: any = Promise.resolve(t); p.then(() => { t.then = null; }); return String(t.hit); })()",
    "/[/.exec ? 1 : 0", "new RegExp(\"[\" + @S + \"]\").test(@S)", "new RegExp(\"a{\" + @I + \"}\").test(\"aaa\")", "new RegExp(\"\\\\\" + @I).test(@S)", "/(?:)/.test(@S)", "/\\u{1F600}/u.test(@S)", "@S.match(/\\p{L}/gu)",
];

/// A program of 8..24 such calls, each wrapped so that a thrown error is caught by the script.
pub fn native_args_program(rng: &mut Rng) -> String {
    let n = 8 + rng.below(17);
    let mut s = String::from("const __log: string[] = [];\nconst S = (v: any): string => { try { return typeof v === \"object\" && v !== null ? String(JSON.stringify(v)).slice(0, 80) : String(v).slice(0, 80); } catch (e: any) { return \"unprintable\"; } };\n");
    for _ in 0..n {
        let t = NATIVE_CALLS[rng.below(NATIVE_CALLS.len())];
        let mut call = String::new();
        let mut rest = t;
        while let Some(i) = rest.find('@') {
            call.push_str(&rest[..i]);
            let kind = rest.as_bytes().get(i + 1).copied().unwrap_or(b' ');
            let pick = match kind {
                b'S' => STRS[rng.below(STRS.len())],
                b'A' => ARRS[rng.below(ARRS.len())],
                b'N' => NUMS[rng.below(NUMS.len())],
                b'I' => IDX[rng.below(IDX.len())],
                b'Z' => SIZE[rng.below(SIZE.len())],
                b'L' => LONGS[rng.below(LONGS.len())],
                b'C' => CMPS[rng.below(CMPS.len())],
                b'O' => HOOKED[rng.below(HOOKED.len())],
                _ => "0",
            };
            call.push('(');
            call.push_str(pick);
            call.push(')');
            rest = &rest[(i + 2).min(rest.len())..];
        }
        call.push_str(rest);
        s.push_str(&format!("try {{ __log.push(S({})); }} catch (e: any) {{ __log.push(\"E:\" + String(e && e.name)); }}\n", call));
    }
    s.push_str("__log.join(\"|\")\n");
    s
}

// ───────────────────────────── process stratum ─────────────────────────────

pub fn alloc_templates() -> Vec<(&'static str, &'static str)> {
    vec![
        ("new-array", "const a = new Array(N); a.length"),
        ("array-fill", "new Array(N).fill(0).length"),
        ("string-repeat", "'x'.repeat(N).length"),
        ("pad-start", "'ab'.padStart(N).length"),
        ("pad-end", "'ab'.padEnd(N, 'xy').length"),
        ("array-join", "Array(N).join('x').length"),
        ("set-length", "const a: any[] = []; a.length = N; a.length"),
        ("array-from-length", "Array.from({ length: N }).length"),
        ("array-tostring", "String(new Array(N)).length"),
        ("json-stringify-array", "JSON.stringify(new Array(N)).length"),
        ("array-index-assign", "const a: any[] = []; a[N] = 1; a.length"),
        ("reflect-set-index", "const a: any[] = []; Reflect.set(a, N, 1); a.length"),
        ("define-property-index", "const a: any[] = []; Object.defineProperty(a, N, { value: 1 }); a.length"),
        ("array-with-spread-length", "Array.apply(null, { length: N } as any).length"),
    ]
}

pub fn recursion_templates() -> Vec<(&'static str, &'static str)> {
    vec![
        ("rec-plain", "function f(n: number): number { return n <= 0 ? 0 : 1 + f(n - 1); } f(N)"),
        ("rec-method", "class C { m(n: number): number { return n <= 0 ? 0 : 1 + this.m(n - 1); } } new C().m(N)"),
        ("rec-ctor", "class D { d: number; constructor(n: number) { this.d = n <= 0 ? 0 : 1 + new D(n - 1).d; } } new D(N).d"),
        ("rec-arrow", "const h = (n: number): number => n <= 0 ? 0 : 1 + h(n - 1); h(N)"),
        ("rec-map-callback", "const f = (n: number): number => n <= 0 ? 0 : 1 + [n].map((x: number) => f(x - 1))[0]; f(N)"),
        ("rec-getter", "const o: any = { n: N, get r(): number { if (this.n <= 0) return 0; this.n--; return 1 + this.r; } }; o.r"),
        ("rec-tostring", "const mk = (n: number): any => ({ toString(): string { return n <= 0 ? '' : 'x' + mk(n - 1); } }); ('' + mk(N)).length"),
        ("rec-proxy-get", "const mkp = (n: number): any => new Proxy({}, { get(t: any, k: any): any { return n <= 0 ? 0 : 1 + mkp(n - 1).v; } }); mkp(N).v"),
        ("rec-tojson", "const mj = (n: number): any => ({ toJSON(): any { return n <= 0 ? 0 : [mj(n - 1)]; } }); JSON.stringify(mj(N)).length"),
        ("rec-sort-comparator", "const s = (n: number): number => n <= 0 ? 0 : [2, 1].sort((a: number, b: number) => { s(n - 1); return a - b; })[0]; s(N)"),
        ("rec-replace-callback", "const r = (n: number): string => n <= 0 ? '' : 'a'.replace('a', () => r(n - 1) + 'b'); r(N).length"),
        ("rec-call-apply", "function c(n: number): number { return n <= 0 ? 0 : 1 + c.call(null, n - 1); } c(N)"),
        ("rec-bound", "function bf(n: number): number { return n <= 0 ? 0 : 1 + bg(n - 1); } const bg = bf.bind(null); bg(N)"),
        ("rec-super-method", "class P { m(n: number): number { return n <= 0 ? 0 : 1; } } class Q extends P { m(n: number): number { return n <= 0 ? super.m(n) : 1 + this.m(n - 1); } } new Q().m(N)"),
        ("rec-derived-ctor", "class R { constructor(n: number) {} } class S extends R { d: number; constructor(n: number) { super(n); this.d = n <= 0 ? 0 : 1 + new S(n - 1).d; } } new S(N).d"),
        ("rec-async", "async function ar(n: number): Promise<number> { return n <= 0 ? 0 : 1 + (await ar(n - 1)); } await ar(N)"),
        // recursion over data: graphs N deep handed to natives that walk them
        ("data-json-stringify-array", "let a: any = 0; for (let i = 0; i < N; i++) { a = [a]; } JSON.stringify(a).length"),
        ("data-json-stringify-object", "let o: any = 0; for (let i = 0; i < N; i++) { o = { c: o }; } JSON.stringify(o).length"),
        ("data-json-parse", "const t: string = '['.repeat(N) + ']'.repeat(N); Array.isArray(JSON.parse(t))"),
        ("data-flat-infinity", "let a: any = [1]; for (let i = 0; i < N; i++) { a = [a]; } a.flat(Infinity).length"),
        ("data-structured-clone", "let a: any = [1]; for (let i = 0; i < N; i++) { a = [a]; } Array.isArray(structuredClone(a))"),
        ("data-array-tostring", "let a: any = [1]; for (let i = 0; i < N; i++) { a = [a]; } String(a).length"),
        ("data-cyclic-flat", "const a: any[] = [N]; a.push(a); a.flat(Infinity).length"),
        ("data-cyclic-structured-clone", "const a: any = { n: N, l: [1] }; a.self = a; a.l.push(a); typeof structuredClone(a)"),
        ("data-cyclic-join", "const a: any[] = [N]; a.push(a); a.join().length"),
        ("data-cyclic-json", "const a: any[] = [N]; a.push(a); let r = 'ok'; try { JSON.stringify(a); } catch (e: any) { r = 'caught'; } r"),
        ("data-gc-deep-list", "let o: any = null; for (let i = 0; i < N; i++) { o = { next: o }; } const junk: any[] = []; for (let i = 0; i < 3000; i++) { junk.push({ i: i }); } o === null ? 0 : 1"),
        ("data-deep-proto-chain", "let o: any = { base: 1 }; for (let i = 0; i < N; i++) { o = Object.create(o); } o.base"),
        ("data-deep-equal-spread", "let o: any = 0; for (let i = 0; i < N; i++) { o = { ...{ c: o } }; } typeof o"),
        ("data-regexp-nesting", "const r: RegExp = new RegExp('('.repeat(N) + 'a' + ')'.repeat(N)); r.test('a')"),
        ("data-regexp-backtracking", "/^(a+)+$/.test('a'.repeat(N > 28 ? 28 : N) + 'b')"),
    ]
}

pub const ALLOC_SIZES: [u64; 10] = [0, 1, 256, 65_536, 1 << 20, 1 << 24, (1u64 << 31) - 1, (1u64 << 32) - 1, 1u64 << 32, 1u64 << 53];
pub const REC_DEPTHS: [u64; 4] = [100, 1_000, 10_000, 100_000];
pub const STACKS_KB: [u64; 3] = [256, 1024, 8192];

pub fn all_proc_cases() -> Vec<ProcCase> {
    let mut v = Vec::new();
    for (name, _) in alloc_templates() {
        for n in ALLOC_SIZES {
            v.push(ProcCase { template: name.to_string(), param: n, stack_kb: 8192 });
        }
    }
    for (name, _) in recursion_templates() {
        for d in REC_DEPTHS {
            for s in STACKS_KB {
                v.push(ProcCase { template: name.to_string(), param: d, stack_kb: s });
            }
        }
    }
    for name in source_templates() {
        for d in REC_DEPTHS {
            for s in STACKS_KB {
                v.push(ProcCase { template: name.to_string(), param: d, stack_kb: s });
            }
        }
    }
    v
}

pub fn case_key(c: &ProcCase) -> String {
    format!("{}:{}:{}KiB", c.template, c.param, c.stack_kb)
}

/// Replace the stand-alone identifier `N` (not the letter inside other words such as JSON).
fn subst_n(src: &str, param: u64) -> String {
    let b = src.as_bytes();
    let is_word = |c: u8| c.is_ascii_alphanumeric() || c == b'_' || c == b'$';
    let mut out = String::with_capacity(src.len() + 16);
    let mut i = 0;
    while i < b.len() {
        let c = b[i];
        if c == b'N' && (i == 0 || !is_word(b[i - 1])) && (i + 1 >= b.len() || !is_word(b[i + 1])) {
            out.push_str(&param.to_string());
            i += 1;
        } else {
            // templates are ASCII
            out.push(c as char);
            i += 1;
        }
    }
    out
}

/// Programs whose *text* is nested N deep (parser and compiler recursion).
pub fn source_templates() -> Vec<&'static str> {
    vec!["src-parens", "src-arrays", "src-blocks", "src-binary-right", "src-binary-left", "src-unary", "src-member-chain", "src-ternary", "src-object-literal", "src-arrow-chain", "src-if-else-chain", "src-call-chain"]
}

fn nested_source(name: &str, n: usize) -> Option<String> {
    let n = n.min(200_000);
    Some(match name {
        "src-parens" => format!("{}1{}", "(".repeat(n), ")".repeat(n)),
        "src-arrays" => format!("{}{}.length", "[".repeat(n), "]".repeat(n)),
        "src-blocks" => format!("{}let q = 1;{} 1", "{".repeat(n), "}".repeat(n)),
        "src-binary-right" => format!("{}1{}", "1 + (".repeat(n), ")".repeat(n)),
        "src-binary-left" => format!("1{}", " + 1".repeat(n)),
        "src-unary" => format!("{}1", "- ".repeat(n)),
        "src-member-chain" => format!("const o: any = {{}}; o{}", "?.a".repeat(n)),
        "src-ternary" => format!("{}0", "1 ? 2 : ".repeat(n)),
        "src-object-literal" => format!("const o: any = {}1{}; 1", "{ a: ".repeat(n), " }".repeat(n)),
        "src-arrow-chain" => format!("const f: any = {}1; typeof f", "() => ".repeat(n)),
        "src-if-else-chain" => format!("let q = 0; {}{{ q = 2; }} q", "if (q === 1) { q = 1; } else ".repeat(n)),
        "src-call-chain" => format!("const id = (x: any): any => x; {}1{}", "id(".repeat(n), ")".repeat(n)),
        _ => return None,
    })
}

fn template_source(name: &str, param: u64) -> Option<String> {
    if name.starts_with("src-") {
        return nested_source(name, param as usize);
    }
    alloc_templates()
        .into_iter()
        .chain(recursion_templates())
        .find(|(n, _)| *n == name)
        .map(|(_, src)| subst_n(src, param))
}

/// Worker side: run one template in a thread with the given stack; print RESULT line.
pub fn proc_worker(name: &str, param: u64, stack_kb: u64) {
    let Some(src) = template_source(name, param) else {
        println!("RESULT harness-error unknown template");
        return;
    };
    let handle = std::thread::Builder::new()
        .stack_size((stack_kb * 1024) as usize)
        .spawn(move || {
            tsrun::verif::reset();
            tsrun::verif::set_fuel(Some(3_000_000));
            let mut interp = tsrun::Interpreter::new();
            let mut steps: u64 = 0;
            let r = match interp.prepare(&src, None) {
                Ok(_) => loop {
                    match interp.step() {
                        Ok(tsrun::StepResult::Continue) => {
                            steps += 1;
                            if steps > 4_000_000 {
                                break "host-stopped".to_string();
                            }
                        }
                        Ok(tsrun::StepResult::Complete(v)) => break format!("complete {}", crate::host::show_value(v.value())),
                        Ok(other) => break format!("other {:?}", other).chars().take(40).collect(),
                        Err(e) => {
                            if tsrun::verif::fuel_exhausted() {
                                break "host-stopped-by-fuel".to_string();
                            }
                            let (k, m) = crate::host::err_kind_msg(&e);
                            break format!("script-error {} {}", k, m.chars().take(60).collect::<String>());
                        }
                    }
                },
                Err(e) => format!("prepare-error {}", crate::host::err_kind_msg(&e).0),
            };
            r
        });
    match handle.map(|h| h.join()) {
        Ok(Ok(r)) => println!("RESULT {}", r),
        Ok(Err(_)) => println!("RESULT panicked"),
        Err(e) => println!("RESULT harness-error cannot spawn thread: {}", e),
    }
}

/// Parent side: run one case in a worker process under a 4 GiB address-space cap.
pub fn run_proc_case(c: &ProcCase) -> String {
    let exe = std::env::current_exe().unwrap_or_default();
    let o = std::process::Command::new("sh")
        .arg("-c")
        .arg("ulimit -v 4194304; ulimit -t 8; exec \"$0\" \"$@\"")
        .arg(&exe)
        .args(["c06-worker", &c.template, &c.param.to_string(), &c.stack_kb.to_string()])
        .output();
    match o {
        Ok(o) => {
            let stdout = String::from_utf8_lossy(&o.stdout).to_string();
            if let Some(l) = stdout.lines().find(|l| l.starts_with("RESULT ")) {
                if l.starts_with("RESULT panicked") {
                    return format!("DIED panic {}", l);
                }
                return l.trim_start_matches("RESULT ").to_string();
            }
            use std::os::unix::process::ExitStatusExt;
            let stderr = String::from_utf8_lossy(&o.stderr).to_string();
            if matches!(o.status.signal(), Some(24) | Some(9)) {
                // the worker hit the CPU limit of its watchdog: one step ran for seconds (work
                // proportional to a size argument inside a native). Reported, never a death.
                return "SLOW cpu-limit-8s-in-one-step".to_string();
            }
            if matches!(o.status.code(), Some(126) | Some(127)) {
                // the shell could not exec the harness binary (it was being rebuilt): not an observation
                return format!("HARNESS cannot exec worker binary (exit {:?})", o.status.code());
            }
            let why = stderr.lines().find(|l| l.contains("overflow") || l.contains("allocation") || l.contains("panicked")).unwrap_or("").chars().take(100).collect::<String>();
            format!("DIED code={:?} signal={:?} {}", o.status.code(), o.status.signal(), why)
        }
        Err(e) => format!("HARNESS cannot spawn: {}", e),
    }
}

/// Run the whole cross product over `threads` parallel workers. Cases that die and are listed
/// under an open finding's `cases` are known; every other death is a violation.
pub fn process_stratum(
    threads: usize,
    open: &[crate::framework::Finding],
    cov: &mut std::collections::BTreeMap<String, Value>,
    xs: &mut crate::framework::ExtraStats,
) -> Vec<(Failure, Value)> {
    let cases = all_proc_cases();
    xs.evaluations += cases.len() as u64;
    xs.distinct_nontrivial += cases.len() as u64;
    let results: std::sync::Mutex<Vec<Option<String>>> = std::sync::Mutex::new(vec![None; cases.len()]);
    let next = std::sync::atomic::AtomicUsize::new(0);
    std::thread::scope(|sc| {
        for _ in 0..threads.max(1) {
            sc.spawn(|| {
                loop {
                    let i = next.fetch_add(1, std::sync::atomic::Ordering::Relaxed);
                    if i >= cases.len() {
                        break;
                    }
                    let r = run_proc_case(&cases[i]);
                    results.lock().unwrap()[i] = Some(r);
                }
            });
        }
    });
    let results = results.into_inner().unwrap();
    let known: std::collections::BTreeSet<String> = open.iter().flat_map(|f| f.cases.iter().cloned()).collect();
    let mut fails = Vec::new();
    let mut died_known: Vec<String> = Vec::new();
    let mut tally: std::collections::BTreeMap<String, u64> = Default::default();
    let mut no_longer: Vec<String> = Vec::new();
    let mut all_died: Vec<String> = Vec::new();
    let mut frontier_shift: Vec<String> = Vec::new();
    for (c, r) in cases.iter().zip(results.iter()) {
        let r = r.clone().unwrap_or_else(|| "HARNESS missing".into());
        let class = r.split(' ').next().unwrap_or("?").to_string();
        *tally.entry(class).or_insert(0) += 1;
        let key = case_key(c);
        // a recursion case is the same known finding when the listed frontier is at most one
        // decade deeper on a stack at least as large, or when a shallower case of the template is
        // listed (a bigger stack only postpones the overflow; whether a deep case on a big stack
        // dies or first runs into the 8 s CPU limit depends on the load of the machine): where
        // exactly the native stack runs out depends on the build, not on the defect
        let near_listed_frontier = c.stack_kb != 8192 || c.template.starts_with("rec-") || c.template.starts_with("data-") || c.template.starts_with("src-");
        let tolerated = near_listed_frontier
            && known.iter().any(|k| {
                let mut it = k.split(':');
                let (t, d, st) = (it.next().unwrap_or(""), it.next().and_then(|x| x.parse::<u64>().ok()).unwrap_or(0), it.next().unwrap_or("").trim_end_matches("KiB").parse::<u64>().unwrap_or(0));
                t == c.template && !alloc_templates().iter().any(|(n, _)| *n == t) && ((d <= c.param.saturating_mul(10) && st >= c.stack_kb) || d <= c.param)
            });
        if r.starts_with("DIED") {
            all_died.push(format!("{} {}", key, r.chars().take(90).collect::<String>()));
            if known.contains(&key) {
                died_known.push(key);
            } else if tolerated {
                frontier_shift.push(key.clone());
                let listed = known.iter().find(|k| k.starts_with(&format!("{}:", c.template))).cloned().unwrap_or_default();
                died_known.push(listed);
            } else if fails.len() < 4 {
                fails.push((
                    Failure::new("worker_process_died", format!("{} -> {}", key, r), json!({"case": c, "result": r})),
                    json!({"source": "", "step_budget": 0, "depth_limit": 0, "answers_tape": {"v": []}, "case": null, "proc_case": c, "isolated": false}),
                ));
            }
        } else if known.contains(&key) {
            no_longer.push(key);
        }
    }
    if let Some(n) = tally.get("HARNESS").copied().filter(|n| *n > 0) {
        // worker processes could not be started (binary replaced while the check ran, no fork, ...):
        // nothing was observed for those cases, so nothing may be claimed
        eprintln!("HARNESS-ERROR: {} worker processes of the C06 resource stratum could not be started", n);
        std::process::exit(2);
    }
    for f in open {
        if f.cases.is_empty() {
            continue;
        }
        let n = died_known.iter().filter(|k| f.cases.contains(k)).count();
        if n > 0 {
            println!("KNOWN-FINDING: property=C06 {} [{}] ({} of {} listed cases died in this run)", f.what, f.id, n, f.cases.len());
        }
    }
    cov.insert(
        "process_stratum".into(),
        json!({"cases": cases.len(), "outcome_classes": tally, "died_and_listed_as_known": died_known.len(), "listed_but_survived_now": no_longer, "died_one_decade_before_the_listed_frontier": frontier_shift, "died_cases": all_died,
               "address_space_cap_kib": 4194304, "stacks_kib": STACKS_KB, "sizes": ALLOC_SIZES, "depths": REC_DEPTHS}),
    );
    fails
}


// ───────────────────────────── in-process stratum, run inside worker processes ─────────────────────────────

fn batch_scenario(seed: u64, i: usize) -> Scn {
    let sid = crate::rng::stream_id("C06/programs");
    let mut r = Rng::new(crate::rng::derive(seed, sid, i as u64));
    C06.generate(&mut r, i, Tier::Quick)
}

/// CPU seconds (user + system) this process has used so far, from /proc/self/stat. CPU time, not
/// wall time: the load of the machine must not decide a verdict.
fn process_cpu_seconds() -> f64 {
    let s = std::fs::read_to_string("/proc/self/stat").unwrap_or_default();
    // fields after the command name in parentheses; utime and stime are the 14th and 15th fields
    let rest = s.rsplit_once(')').map(|x| x.1).unwrap_or("");
    let f: Vec<&str> = rest.split_whitespace().collect();
    let ticks = f.get(11).and_then(|x| x.parse::<f64>().ok()).unwrap_or(0.0) + f.get(12).and_then(|x| x.parse::<f64>().ok()).unwrap_or(0.0);
    ticks / 100.0
}

/// CPU time the process may burn while NO step completes (the heartbeat of the simulated host
/// stands still) before the worker gives up: one step() that does not come back from a native,
/// e.g. runaway regular-expression backtracking. Long scenarios made of many steps are not affected.
pub const SCENARIO_CPU_BUDGET_S: f64 = 15.0;

/// Watchdog loop shared by the batch workers and the isolated replay: returns when the budget is
/// exhausted while the heartbeat stood still. `active` says whether a scenario is running.
fn wait_until_one_step_is_stuck(active: impl Fn() -> bool) {
    let mut last_beat = crate::host::HEARTBEAT.load(std::sync::atomic::Ordering::Relaxed);
    let mut last_cpu = process_cpu_seconds();
    let mut stuck = 0.0f64;
    loop {
        std::thread::sleep(std::time::Duration::from_millis(200));
        let beat = crate::host::HEARTBEAT.load(std::sync::atomic::Ordering::Relaxed);
        let cpu = process_cpu_seconds();
        if beat != last_beat || !active() {
            stuck = 0.0;
        } else {
            stuck += cpu - last_cpu;
        }
        last_beat = beat;
        last_cpu = cpu;
        if stuck > SCENARIO_CPU_BUDGET_S {
            return;
        }
    }
}

pub fn batch_worker(seed: u64, from: usize, to: usize) {
    use std::io::Write;
    let out = std::io::stdout();
    // watchdog on CPU time: the scenario thread publishes (index, cpu at start); the monitor ends the
    // process with exit code 3 when one scenario has burnt its budget
    let current: std::sync::Arc<std::sync::Mutex<Option<(usize, f64)>>> = Default::default();
    {
        let current = current.clone();
        std::thread::spawn(move || {
            let c2 = current.clone();
            wait_until_one_step_is_stuck(move || c2.lock().unwrap().is_some());
            let i = current.lock().unwrap().map(|x| x.0).unwrap_or(0);
            println!("T {}", i);
            std::process::exit(3);
        });
    }
    // a big stack for the legitimate part; a native-stack overflow still kills the worker
    let h = std::thread::Builder::new().stack_size(64 * 1024 * 1024).spawn(move || {
        for i in from..to {
            let scn = batch_scenario(seed, i);
            {
                let mut o = out.lock();
                let _ = writeln!(o, "S {}", i);
                let _ = o.flush();
            }
            *current.lock().unwrap() = Some((i, process_cpu_seconds()));
            let rep = crate::framework::execute_caught(&C06, &scn);
            *current.lock().unwrap() = None;
            let counters = serde_json::to_string(&rep.counters).unwrap_or_default();
            let mut o = out.lock();
            let _ = writeln!(
                o,
                "R {} {:x} {} {} {} {}",
                i,
                rep.trace_hash,
                rep.nontrivial as u8,
                rep.failure.as_ref().map(|f| f.clause.clone()).unwrap_or_else(|| "-".into()),
                rep.sim_instructions,
                counters
            );
            let _ = o.flush();
        }
    });
    if let Ok(h) = h {
        let _ = h.join();
    }
}

pub fn exec_one_from_stdin() -> i32 {
    let mut buf = String::new();
    let _ = std::io::Read::read_to_string(&mut std::io::stdin(), &mut buf);
    match serde_json::from_str::<Scn>(&buf) {
        Ok(scn) => {
            // the same CPU-time budget as in the batch workers, so that a replay judges like the search
            std::thread::spawn(|| {
                wait_until_one_step_is_stuck(|| true);
                println!("FAIL step_did_not_return_within_cpu_budget one step used more than {} CPU seconds", SCENARIO_CPU_BUDGET_S);
                std::process::exit(0);
            });
            let h = std::thread::Builder::new().stack_size(64 * 1024 * 1024).spawn(move || crate::framework::execute_caught(&C06, &scn));
            match h.map(|h| h.join()) {
                Ok(Ok(rep)) => {
                    match rep.failure {
                        Some(f) => println!("FAIL {} {}", f.clause, f.observed.replace('\n', " ")),
                        None => println!("OK {:x} {}", rep.trace_hash, rep.nontrivial as u8),
                    }
                    0
                }
                _ => 3,
            }
        }
        Err(e) => {
            eprintln!("bad scenario: {}", e);
            2
        }
    }
}

pub fn run_isolated(scn: &Scn) -> RunReport {
    use std::io::Write;
    let mut rep = RunReport::default();
    let exe = std::env::current_exe().unwrap_or_default();
    let mut inner = scn.clone();
    inner.isolated = false;
    let json_s = serde_json::to_string(&inner).unwrap_or_default();
    let child = std::process::Command::new(&exe)
        .arg("c06-exec-one")
        .stdin(std::process::Stdio::piped())
        .stdout(std::process::Stdio::piped())
        .stderr(std::process::Stdio::piped())
        .spawn();
    let Ok(mut child) = child else {
        rep.fail(Failure::new("harness_cannot_spawn_worker", "spawn failed", json!({})));
        return rep;
    };
    if let Some(mut si) = child.stdin.take() {
        let _ = si.write_all(json_s.as_bytes());
    }
    match child.wait_with_output() {
        Ok(o) => {
            let stdout = String::from_utf8_lossy(&o.stdout).to_string();
            if o.status.success() {
                if let Some(l) = stdout.lines().find(|l| l.starts_with("FAIL ")) {
                    let mut it = l.splitn(3, ' ');
                    let _ = it.next();
                    let clause = it.next().unwrap_or("?");
                    rep.fail(Failure::new(clause, it.next().unwrap_or(""), json!({"isolated": true})));
                } else if let Some(l) = stdout.lines().find(|l| l.starts_with("OK ")) {
                    let mut it = l.split(' ');
                    let _ = it.next();
                    rep.trace_hash = it.next().and_then(|h| u64::from_str_radix(h, 16).ok()).unwrap_or(0);
                    rep.nontrivial = it.next() == Some("1");
                }
            } else {
                use std::os::unix::process::ExitStatusExt;
                let stderr = String::from_utf8_lossy(&o.stderr).to_string();
                let how = format!("code={:?} signal={:?}", o.status.code(), o.status.signal());
                let why: String = stderr.lines().filter(|l| l.contains("overflow") || l.contains("allocation") || l.contains("panicked")).take(2).collect::<Vec<_>>().join(" | ");
                rep.fail(Failure::new("script_killed_the_process", how.clone(), json!({"how": how, "stderr_excerpt": why.chars().take(300).collect::<String>()})));
            }
        }
        Err(e) => rep.fail(Failure::new("harness_cannot_wait_worker", e.to_string(), json!({}))),
    }
    rep
}

/// Parent: run `n` in-process scenarios spread over worker processes.
pub fn batch_stratum(seed: u64, n: usize, threads: usize, cov: &mut std::collections::BTreeMap<String, Value>, xs: &mut crate::framework::ExtraStats) -> Vec<(Failure, Value)> {
    let mut fails: Vec<(Failure, Value)> = Vec::new();
    let exe = std::env::current_exe().unwrap_or_default();
    let w = threads.max(1);
    let per = n.div_ceil(w);
    let mut children = Vec::new();
    for k in 0..w {
        let (from, to) = (k * per, ((k + 1) * per).min(n));
        if from >= to {
            break;
        }
        if let Ok(c) = std::process::Command::new(&exe)
            .args(["c06-batch-worker", &seed.to_string(), &from.to_string(), &to.to_string()])
            .stdout(std::process::Stdio::piped())
            .stderr(std::process::Stdio::piped())
            .spawn()
        {
            children.push((from, to, c));
        }
    }
    let mut done = 0u64;
    let mut distinct: std::collections::HashSet<String> = Default::default();
    for (from, to, c) in children {
        let Ok(o) = c.wait_with_output() else { continue };
        let stdout = String::from_utf8_lossy(&o.stdout).to_string();
        let (mut last_started, mut last_done): (Option<usize>, Option<usize>) = (None, None);
        let mut timed_out = false;
        for l in stdout.lines() {
            let p: Vec<&str> = l.splitn(7, ' ').collect();
            if p.first() == Some(&"T") {
                if let Some(i) = p.get(1).and_then(|x| x.parse::<usize>().ok())
                    && fails.len() < 4
                {
                    let mut scn = batch_scenario(seed, i);
                    scn.isolated = true;
                    fails.push((
                        Failure::new("step_did_not_return_within_cpu_budget", format!("one step of scenario {} used more than {} CPU seconds", i, SCENARIO_CPU_BUDGET_S), json!({"index": i, "cpu_budget_s": SCENARIO_CPU_BUDGET_S})),
                        serde_json::to_value(&scn).unwrap_or_default(),
                    ));
                    timed_out = true;
                }
            } else if p.first() == Some(&"S") {
                last_started = p.get(1).and_then(|x| x.parse().ok());
            } else if p.first() == Some(&"R") {
                last_done = p.get(1).and_then(|x| x.parse().ok());
                done += 1;
                if p.get(3) == Some(&"1") {
                    distinct.insert(p.get(2).unwrap_or(&"").to_string());
                }
                xs.counters.entry("sim_instructions_in_workers".into()).and_modify(|v| *v += p.get(5).and_then(|x| x.parse::<u64>().ok()).unwrap_or(0)).or_insert(0);
                if let Some(cj) = p.get(6)
                    && let Ok(m) = serde_json::from_str::<std::collections::BTreeMap<String, u64>>(cj)
                {
                    for (k, v) in m {
                        *xs.counters.entry(k).or_insert(0) += v;
                    }
                }
                if let Some(cl) = p.get(4)
                    && *cl != "-"
                    && fails.len() < 4
                    && let Some(i) = last_done
                {
                    let mut scn = batch_scenario(seed, i);
                    scn.isolated = true;
                    fails.push((Failure::new(cl, format!("scenario {}", i), json!({"index": i})), serde_json::to_value(&scn).unwrap_or_default()));
                }
            }
        }
        if !o.status.success() && !timed_out && fails.len() < 4 {
            let culprit = match (last_started, last_done) {
                (Some(s), Some(d)) if s != d => Some(s),
                (Some(s), None) => Some(s),
                _ => None,
            };
            if let Some(i) = culprit {
                let stderr = String::from_utf8_lossy(&o.stderr).to_string();
                let mut scn = batch_scenario(seed, i);
                scn.isolated = true;
                fails.push((
                    Failure::new("script_killed_the_process", format!("worker [{}..{}) died at scenario {}", from, to, i),
                        json!({"index": i, "stderr_excerpt": stderr.lines().filter(|l| l.contains("overflow") || l.contains("allocation") || l.contains("panicked")).take(2).collect::<Vec<_>>().join(" | ")})),
                    serde_json::to_value(&scn).unwrap_or_default(),
                ));
            }
        }
    }
    xs.evaluations += done;
    xs.distinct_nontrivial += distinct.len() as u64;
    for i in 0..2 {
        xs.samples.push(serde_json::to_value(batch_scenario(seed, i * 4 + 1)).unwrap_or_default());
    }
    cov.insert("watchdog_stratum".into(), json!({"scenarios": done, "distinct_nontrivial": distinct.len(), "worker_processes": w}));
    fails
}
