//! C07 — Suspending and resuming is transparent to the program.
//!
//! The same token-identical body is run with host holes bound (S) to `order()` — the VM suspends
//! to the simulated host, which answers immediately / with errors / with promises it settles
//! later, in tape-chosen order and batching, with spurious steps — and (V) to a synchronous stub
//! returning the same data. Only the save/restore machinery differs between the two sides.

use crate::framework::{Check, Failure, RunReport, Tier};
use crate::host::{Driver, GcSched, run_solo, run_solo_hint};
use crate::proggen::{GenCfg, HoleVariant};
use crate::progscn::{ProgCase, random_gc};
use crate::rng::{Rng, Tape};
use serde::{Deserialize, Serialize};
use serde_json::{Value, json};

#[derive(Clone, Debug, Serialize, Deserialize)]
pub struct Sched {
    pub tape: Tape,
    pub gc: GcSched,
    pub driver: Driver,
}

#[derive(Clone, Debug, Serialize, Deserialize)]
pub struct Scn {
    pub case: ProgCase,
    pub schedules: Vec<Sched>,
    pub fuel: u64,
}

pub struct C07;

impl Check for C07 {
    type Scn = Scn;
    fn id(&self) -> &'static str {
        "C07"
    }
    fn rule(&self) -> String {
        "progGen programs with up to 5 host holes `await __h(k)` at statement level, in initialisers, arguments, elements, template holes, conditions, inside try/catch/finally, loops, for-of over generators, switch, nested blocks with shadowing lets, async methods using this and #private, static async methods, nested async helper calls; x 3-5 host schedules each (per hole: immediate value / error / pending host promise fulfilled or rejected later; settle order and batching from the tape; idle steps; eval vs prepare+step driver; GC schedule from the C02 space). Oracle: outcome and console of the order-bound variant equal those of the synchronous-stub variant. non-trivial = at least one suspension to the host happened; distinct = distinct hash of (reference digest, host traffic of every schedule)".into()
    }
    fn components(&self) -> Value {
        json!({"real": ["lexer", "parser", "compiler", "BytecodeVM save_state/from_saved_state", "Interpreter step/fulfill_orders/wait graph", "promise builtins", "gc.rs"],
               "stub": ["host (choice tape)", "console/time/random providers", "collector schedule"],
               "not_run": ["ffi", "tsrun binary"]})
    }
    fn assumptions(&self) -> Vec<String> {
        vec![
            "generated programs are sequential in their async structure (every promise is awaited where it is created), so no outcome is legitimately settle-order dependent".into(),
            "the synchronous stub variant (no suspension at all) is the reference; the in-program promise variant is reported as additional context only".into(),
        ]
    }

    fn generate(&self, rng: &mut Rng, _idx: usize, _tier: Tier) -> Scn {
        let holes = 1 + rng.below(5);
        let mut cfg = GenCfg::swarm(rng, holes);
        cfg.size = 4 + rng.below(30);
        cfg.f_try = rng.chance(0.9);
        let variant = if rng.chance(0.5) { HoleVariant::Order } else { HoleVariant::OrderDirect };
        let mut case = ProgCase::generate(rng, cfg, variant, "v");
        if rng.chance(0.25) {
            case.module_path = Some("/p/main.ts".into());
        }
        let n = 3 + rng.below(3);
        let schedules = (0..n)
            .map(|i| Sched {
                tape: if i == 0 { Tape::from_vec(vec![]) } else { Tape::random(rng, 40) },
                gc: if rng.chance(0.5) { GcSched::off() } else { random_gc(rng) },
                driver: if rng.chance(0.75) { Driver::Step } else { Driver::Eval },
            })
            .collect();
        Scn { case, schedules, fuel: 400_000 }
    }

    fn shrink(&self, scn: &Scn) -> Vec<Scn> {
        let mut out = Vec::new();
        if scn.schedules.len() > 1 {
            for s in &scn.schedules {
                out.push(Scn { schedules: vec![s.clone()], ..scn.clone() });
            }
        }
        if scn.schedules.len() == 1 {
            let s = &scn.schedules[0];
            if !s.gc.is_off() {
                out.push(Scn { schedules: vec![Sched { gc: GcSched::off(), ..s.clone() }], ..scn.clone() });
            }
            if !s.tape.v.is_empty() {
                out.push(Scn { schedules: vec![Sched { tape: Tape::from_vec(vec![]), ..s.clone() }], ..scn.clone() });
                let h = s.tape.v.len() / 2;
                out.push(Scn { schedules: vec![Sched { tape: Tape::from_vec(s.tape.v[..h].to_vec()), ..s.clone() }], ..scn.clone() });
            }
            if s.driver == Driver::Eval {
                out.push(Scn { schedules: vec![Sched { driver: Driver::Step, ..s.clone() }], ..scn.clone() });
            }
        }
        // simplify answers: deferred -> immediate
        for (k, a) in &scn.case.answers {
            let simpler = match a {
                crate::host::Answer::DeferValue(v) => Some(crate::host::Answer::Value(v.clone())),
                crate::host::Answer::DeferReject(m) => Some(crate::host::Answer::Error(m.clone())),
                crate::host::Answer::Undefined => Some(crate::host::Answer::Value(serde_json::json!(1))),
                _ => None,
            };
            if let Some(sa) = simpler {
                let mut c = scn.case.clone();
                c.answers.insert(k.clone(), sa);
                let c = c.with_variant(scn.case.variant);
                out.push(Scn { case: c, ..scn.clone() });
            }
        }
        for c in scn.case.shrink_tree() {
            out.push(Scn { case: c, ..scn.clone() });
        }
        if scn.case.module_path.is_some() {
            let mut c = scn.case.clone();
            c.module_path = None;
            out.push(Scn { case: c, ..scn.clone() });
        }
        out
    }

    fn execute(&self, scn: &Scn) -> RunReport {
        let mut rep = RunReport::default();
        let vcase = scn.case.with_variant(HoleVariant::Sync);
        let reference = run_solo(&vcase.spec(Driver::Step, GcSched::off(), Tape::from_vec(vec![]), scn.fuel));
        rep.sim_instructions += reference.counters.instructions;
        if reference.result.starts_with("error:SyntaxError") {
            rep.bump("reference_syntax_error", 1);
            rep.trace_hash = reference.digest();
            return rep;
        }
        if reference.suspensions > 0 {
            rep.bump("reference_itself_suspended", 1);
        }
        let mut digest = format!("{:x}", reference.digest());
        let mut suspended = false;
        for (si, s) in scn.schedules.iter().enumerate() {
            let out = run_solo_hint(
                &scn.case.spec(s.driver, s.gc.clone(), s.tape.clone(), scn.fuel),
                reference.counters.allocs,
            );
            rep.sim_instructions += out.counters.instructions;
            if out.orders_seen > 0 {
                suspended = true;
            }
            rep.bump("suspensions", out.suspensions);
            rep.bump("orders", out.orders_seen);
            rep.bump("error_answers", out.error_answers);
            rep.bump("deferred_settled", out.deferred_settled);
            rep.bump("idle_steps", out.idle_steps);
            rep.bump("collections", out.counters.collections);
            rep.bump("max_call_depth_ge2_at_some_step", (out.max_call_depth >= 2) as u64);
            digest.push_str(&format!("|{:x}", crate::rng::hash_str(&out.traffic.join("\n"))));
            if rep.failure.is_some() {
                continue;
            }
            if out.result != reference.result || out.console != reference.console {
                let pcase = scn.case.with_variant(HoleVariant::Promise);
                let pref = run_solo(&pcase.spec(Driver::Step, GcSched::off(), Tape::from_vec(vec![]), scn.fuel));
                let clause = classify(&reference.result, &out.result);
                let short: String = out.result.chars().take(200).collect();
                rep.fail(Failure::new(
                    clause,
                    short,
                    json!({"schedule_index": si, "expected_sync_stub": reference.result, "observed_suspending": out.result,
                           "in_program_promise_variant": pref.result, "expected_console": reference.console, "observed_console": out.console,
                           "traffic": out.traffic, "tags": scn.case.tags}),
                ));
            } else if !out.stale.is_empty() {
                rep.fail(Failure::new("stale_deref", out.stale[0].clone(), json!({"schedule_index": si, "stale": out.stale})));
            }
        }
        for t in &scn.case.tags {
            rep.bump(&format!("tag_{}", t), 1);
        }
        rep.nontrivial = suspended;
        rep.trace_hash = crate::rng::hash_str(&digest);
        rep
    }
}

fn classify(expected: &str, observed: &str) -> &'static str {
    if observed.starts_with("error:Other:ThrownValue") {
        "error_escapes_to_host_uncaught"
    } else if observed.starts_with("stuck:") || observed == "done" {
        "run_stuck_after_resume"
    } else if observed.starts_with("error:") && !expected.starts_with("error:") {
        "error_only_when_suspending"
    } else {
        "outcome_differs_from_sync_stub"
    }
}
