//! C08 — The order protocol is exact: every order reported once, no lost wake-ups.
//!
//! Two parties on one transport: the program side is real (interpreter + promise builtins +
//! tsrun:host), the host side is the simulator. Programs come from a small DSL (`orderDsl`);
//! an executable reference model of the order ledger, the host promises and the combinators
//! runs in lockstep with the real interpreter: after every host action the model says where the
//! program must block next, which orders it must have issued, which cancellations are due and
//! what the log must contain in the end.

use crate::framework::{Check, Failure, RunReport, Tier};
use crate::host::{err_kind_msg, new_interp, show_value};
use crate::rng::{Rng, Tape, hash_str};
use serde::{Deserialize, Serialize};
use serde_json::{Value, json};
use tsrun::{JsError, JsValue, OrderId, OrderResponse, RuntimeValue, StepResult, api};

#[derive(Clone, Debug, Serialize, Deserialize, PartialEq)]
pub enum Ans {
    Value,
    Error,
    /// answer with a pending promise (order-linked or plain), settled later
    Promise { linked: bool, ok: bool },
}

#[derive(Clone, Debug, Serialize, Deserialize, PartialEq)]
pub enum Stmt {
    /// `await order({k:i})`
    AwaitOrder(u8),
    /// `q_i = order({k:i})`
    Issue(u8),
    /// `await q_i`
    AwaitQ(u8),
    All(Vec<u8>),
    Race(Vec<u8>),
    Any(Vec<u8>),
    AllSettled(Vec<u8>),
    /// `__cancelOrder__(i)`
    Cancel(u8),
    /// `[q_a, q_b, ...] = [{k:a},{k:b},...].map(order)`: several orders issued in one go through a
    /// native; the program gets markers and keeps running. A marker is awaited with AwaitQ.
    Batch(Vec<u8>),
}

#[derive(Clone, Debug, Serialize, Deserialize)]
pub struct Scn {
    /// (statement, run inside an async callee)
    pub stmts: Vec<(Stmt, bool)>,
    /// per statement, where the catch sits relative to an async callee (only with callee = true):
    /// 0 try/catch inside the callee, 1 try around the awaited call, 2 the callee's promise is kept
    /// and awaited in a try afterwards (no try block is active while the order is outstanding),
    /// 3 a `.catch(handler)` on the callee's promise
    #[serde(default)]
    pub wrap: Vec<u8>,
    /// answer of order i (index i-1)
    pub answers: Vec<Ans>,
    pub tape: Tape,
    pub force_collect: bool,
    pub gc_threshold: u32,
    /// host fault kinds enabled for this run
    pub f_unknown_id: bool,
    pub f_duplicate: bool,
    pub f_idle: bool,
    /// the program's last statement is a batch of orders nobody awaits: the run ends with these
    /// orders reported (Suspended) and then Done
    #[serde(default)]
    pub trailing_unawaited: bool,
}

pub struct C08;

pub fn render(scn: &Scn) -> String {
    let mut s = String::from(
        "import { order, __cancelOrder__ } from \"tsrun:host\";\nconst L: string[] = [];\nconst S = (v: any): string => v === undefined ? \"undefined\" : String(JSON.stringify(v));\n",
    );
    for i in 1..=scn.answers.len() {
        s.push_str(&format!("let q{}: any;\n", i));
    }
    for (idx, (st, callee)) in scn.stmts.iter().enumerate() {
        // (guarded action, catch action)
        let (x, c): (String, String) = match st {
            Stmt::AwaitOrder(i) => (
                format!("L.push(\"r{i}=\" + S(await order({{ k: {i} }})));"),
                format!("L.push(\"c{i}=\" + String(e));"),
            ),
            Stmt::Issue(i) => (
                format!("q{i} = order({{ k: {i} }}); L.push(\"i{i}\");"),
                format!("L.push(\"ci{i}=\" + String(e));"),
            ),
            Stmt::AwaitQ(i) => (format!("L.push(\"w{i}=\" + S(await q{i}));"), format!("L.push(\"cw{i}=\" + String(e));")),
            Stmt::All(v) | Stmt::Race(v) | Stmt::Any(v) | Stmt::AllSettled(v) => {
                let name = match st {
                    Stmt::All(_) => "all",
                    Stmt::Race(_) => "race",
                    Stmt::Any(_) => "any",
                    _ => "allSettled",
                };
                let items: Vec<String> = v.iter().map(|i| format!("q{}", i)).collect();
                (
                    format!("L.push(\"{name}=\" + S(await Promise.{name}([{}])));", items.join(", ")),
                    format!("L.push(\"c{name}=\" + S(e));"),
                )
            }
            Stmt::Cancel(i) => (format!("__cancelOrder__({i}); L.push(\"x{i}\");"), String::new()),
            Stmt::Batch(v) => {
                let qs: Vec<String> = v.iter().map(|i| format!("q{}", i)).collect();
                let ps: Vec<String> = v.iter().map(|i| format!("{{ k: {} }}", i)).collect();
                let ids: Vec<String> = v.iter().map(|i| i.to_string()).collect();
                (format!("[{}] = [{}].map(order); L.push(\"b{}\");", qs.join(", "), ps.join(", "), ids.join("_")), String::new())
            }
        };
        if c.is_empty() {
            s.push_str(&x);
            s.push('\n');
            continue;
        }
        let inside = format!("try {{ {x} }} catch (e: any) {{ {c} }}");
        if !*callee {
            s.push_str(&inside);
            s.push('\n');
            continue;
        }
        match scn.wrap.get(idx).copied().unwrap_or(0) {
            1 => s.push_str(&format!("try {{ await (async (): Promise<any> => {{ {x} }})(); }} catch (e: any) {{ {c} }}\n")),
            2 => s.push_str(&format!(
                "{{ const p: any = (async (): Promise<any> => {{ {x} }})(); try {{ await p; }} catch (e: any) {{ {c} }} }}\n"
            )),
            3 => s.push_str(&format!("await (async (): Promise<any> => {{ {x} }})().catch((e: any) => {{ {c} }});\n")),
            _ => s.push_str(&format!("await (async (): Promise<any> => {{ {inside} }})();\n")),
        }
    }
    s.push_str("L.join(\";\")\n");
    s
}

// ───────────────────────────── reference model ─────────────────────────────

#[derive(Clone, Debug, PartialEq)]
enum PState {
    Pending,
    Ful(i64),
    Rej(String),
}

#[derive(Clone, Debug, PartialEq)]
enum QVal {
    Unset,
    Undefined,
    Val(i64),
    Prom(usize), // promise of order i (index = order number)
    /// marker of order i issued in a batch: awaiting it blocks until the host has answered order i
    Marker(u8),
}

#[derive(Clone, Debug, PartialEq)]
enum Block {
    /// the program issued order i and is blocked until the host answers it
    Order(u8),
    /// the program awaits pending promise(s)
    Promises,
    Done,
}

struct Model<'a> {
    scn: &'a Scn,
    pc: usize,
    phase: u8,
    log: Vec<String>,
    q: Vec<QVal>,              // index by order number (0 unused)
    prom: Vec<Option<PState>>, // promise created for order i
    answered: Vec<bool>,
    issued: Vec<u8>,
    newly_issued: Vec<u8>,
    required_cancels: Vec<u8>,
    optional_cancels: Vec<u8>,
    /// combinator waiting state: for All — first rejection seen while waiting
    comb_first_settle: Option<(u8, PState)>,
    comb_waiting: bool,
}

fn val_of(i: u8) -> i64 {
    100 + i as i64
}
fn late_val_of(i: u8) -> i64 {
    200 + i as i64
}
fn err_of(i: u8) -> String {
    format!("TypeError: E{}", i)
}
fn rej_of(i: u8) -> String {
    format!("R{}", i)
}

impl<'a> Model<'a> {
    fn new(scn: &'a Scn) -> Self {
        let n = scn.answers.len() + 1;
        Model {
            scn,
            pc: 0,
            phase: 0,
            log: Vec::new(),
            q: vec![QVal::Unset; n],
            prom: vec![None; n],
            answered: vec![false; n],
            issued: Vec::new(),
            newly_issued: Vec::new(),
            required_cancels: Vec::new(),
            optional_cancels: Vec::new(),
            comb_first_settle: None,
            comb_waiting: false,
        }
    }

    fn ans(&self, i: u8) -> &Ans {
        &self.scn.answers[i as usize - 1]
    }

    /// host answered order i (the model applies the scenario's answer kind)
    fn host_answers(&mut self, i: u8) {
        self.answered[i as usize] = true;
        if let Ans::Promise { .. } = self.ans(i) {
            self.prom[i as usize] = Some(PState::Pending);
        }
    }

    /// host settled the promise of order i
    fn host_settles(&mut self, i: u8) {
        let st = match self.ans(i) {
            Ans::Promise { ok: true, .. } => PState::Ful(late_val_of(i)),
            Ans::Promise { ok: false, linked } => {
                if *linked {
                    // tsrun reports the order of a rejected order-linked promise as cancelled
                    self.optional_cancels.push(i);
                }
                PState::Rej(rej_of(i))
            }
            _ => return,
        };
        self.prom[i as usize] = Some(st.clone());
        if self.comb_waiting && self.comb_first_settle.is_none() {
            // is i a member of the combinator the program is waiting in?
            if let Some((Stmt::All(v) | Stmt::Race(v), _)) = self.scn.stmts.get(self.pc)
                && v.contains(&i)
            {
                let relevant = match (&self.scn.stmts[self.pc].0, &st) {
                    (Stmt::Race(_), _) => true,
                    (Stmt::All(_), PState::Rej(_)) => true,
                    _ => false,
                };
                if relevant {
                    self.comb_first_settle = Some((i, st));
                }
            }
        }
    }

    fn qstate(&self, i: u8) -> (bool, Option<Result<String, String>>) {
        // (is_promise, settled result as JSON text / rejection text)
        match &self.q[i as usize] {
            QVal::Unset | QVal::Undefined => (false, Some(Ok("undefined".into()))),
            QVal::Val(v) => (false, Some(Ok(v.to_string()))),
            QVal::Marker(_) => (false, Some(Ok("{}".into()))),
            QVal::Prom(p) => match self.prom[*p].as_ref() {
                Some(PState::Ful(v)) => (true, Some(Ok(v.to_string()))),
                Some(PState::Rej(m)) => (true, Some(Err(m.clone()))),
                _ => (true, None),
            },
        }
    }

    fn json_item(s: &str) -> String {
        if s == "undefined" { "null".into() } else { s.to_string() }
    }

    /// Run the model program until it blocks.
    fn run(&mut self) -> Block {
        loop {
            let Some((st, _callee)) = self.scn.stmts.get(self.pc).cloned() else {
                return Block::Done;
            };
            match st {
                Stmt::AwaitOrder(i) | Stmt::Issue(i) => {
                    let is_await = matches!(st, Stmt::AwaitOrder(_));
                    if self.phase == 0 {
                        self.issued.push(i);
                        self.newly_issued.push(i);
                        self.phase = 1;
                        return Block::Order(i);
                    }
                    if self.phase == 1 {
                        if !self.answered[i as usize] {
                            return Block::Order(i);
                        }
                        match self.ans(i).clone() {
                            Ans::Value => {
                                if is_await {
                                    self.log.push(format!("r{}={}", i, val_of(i)));
                                } else {
                                    self.q[i as usize] = QVal::Val(val_of(i));
                                    self.log.push(format!("i{}", i));
                                }
                                self.next();
                            }
                            Ans::Error => {
                                if is_await {
                                    self.log.push(format!("c{}={}", i, err_of(i)));
                                } else {
                                    self.q[i as usize] = QVal::Undefined;
                                    self.log.push(format!("ci{}={}", i, err_of(i)));
                                }
                                self.next();
                            }
                            Ans::Promise { .. } => {
                                self.q[i as usize] = QVal::Prom(i as usize);
                                if is_await {
                                    self.phase = 2;
                                } else {
                                    self.log.push(format!("i{}", i));
                                    self.next();
                                }
                            }
                        }
                        continue;
                    }
                    // phase 2: await the promise the host answered with
                    match self.prom[i as usize].clone() {
                        Some(PState::Ful(v)) => {
                            self.log.push(format!("r{}={}", i, v));
                            self.next();
                        }
                        Some(PState::Rej(m)) => {
                            self.log.push(format!("c{}={}", i, m));
                            self.next();
                        }
                        _ => return Block::Promises,
                    }
                }
                Stmt::Batch(v) => {
                    for i in &v {
                        self.issued.push(*i);
                        self.newly_issued.push(*i);
                        self.q[*i as usize] = QVal::Marker(*i);
                    }
                    let ids: Vec<String> = v.iter().map(|i| i.to_string()).collect();
                    self.log.push(format!("b{}", ids.join("_")));
                    self.next();
                }
                Stmt::AwaitQ(i) if matches!(self.q[i as usize], QVal::Marker(_)) => {
                    if !self.answered[i as usize] {
                        return Block::Order(i);
                    }
                    match self.ans(i).clone() {
                        Ans::Error => self.log.push(format!("cw{}={}", i, err_of(i))),
                        _ => self.log.push(format!("w{}={}", i, val_of(i))),
                    }
                    self.next();
                }
                Stmt::AwaitQ(i) => match self.qstate(i) {
                    (_, Some(Ok(v))) => {
                        self.log.push(format!("w{}={}", i, v));
                        self.next();
                    }
                    (_, Some(Err(m))) => {
                        self.log.push(format!("cw{}={}", i, m));
                        self.next();
                    }
                    (_, None) => return Block::Promises,
                },
                Stmt::All(v) => {
                    if !self.comb_waiting {
                        // at call time: first already-rejected in array order wins
                        let states: Vec<_> = v.iter().map(|i| self.qstate(*i).1).collect();
                        if let Some(Some(Err(m))) = states.iter().find(|s| matches!(s, Some(Err(_)))) {
                            self.log.push(format!("call={}", serde_json::to_string(m).unwrap_or_default()));
                            self.next();
                            continue;
                        }
                        if states.iter().all(|s| s.is_some()) {
                            let items: Vec<String> = states
                                .iter()
                                .map(|s| Self::json_item(s.as_ref().and_then(|r| r.as_ref().ok()).map(|x| x.as_str()).unwrap_or("null")))
                                .collect();
                            self.log.push(format!("all=[{}]", items.join(",")));
                            self.next();
                            continue;
                        }
                        self.comb_waiting = true;
                        self.comb_first_settle = None;
                        return Block::Promises;
                    }
                    // waiting: rejected in time?
                    if let Some((_, PState::Rej(m))) = self.comb_first_settle.clone() {
                        self.log.push(format!("call={}", serde_json::to_string(&m).unwrap_or_default()));
                        self.next();
                        continue;
                    }
                    let states: Vec<_> = v.iter().map(|i| self.qstate(*i).1).collect();
                    if states.iter().all(|s| s.is_some()) {
                        let items: Vec<String> = states
                            .iter()
                            .map(|s| Self::json_item(s.as_ref().and_then(|r| r.as_ref().ok()).map(|x| x.as_str()).unwrap_or("null")))
                            .collect();
                        self.log.push(format!("all=[{}]", items.join(",")));
                        self.next();
                        continue;
                    }
                    return Block::Promises;
                }
                Stmt::Race(v) => {
                    if !self.comb_waiting {
                        // at call time: first settled in array order wins, nothing is cancelled
                        if let Some(r) = v.iter().find_map(|i| self.qstate(*i).1) {
                            match r {
                                Ok(x) => self.log.push(format!("race={}", if x == "undefined" { "undefined".to_string() } else { x })),
                                Err(m) => self.log.push(format!("crace={}", serde_json::to_string(&m).unwrap_or_default())),
                            }
                            self.next();
                            continue;
                        }
                        self.comb_waiting = true;
                        self.comb_first_settle = None;
                        return Block::Promises;
                    }
                    if let Some((w, st)) = self.comb_first_settle.clone() {
                        // losers: every other member whose promise is order-linked
                        for i in &v {
                            if *i != w
                                && let Ans::Promise { linked: true, .. } = self.ans(*i)
                            {
                                self.required_cancels.push(*i);
                            }
                        }
                        match st {
                            PState::Ful(x) => self.log.push(format!("race={}", x)),
                            PState::Rej(m) => self.log.push(format!("crace={}", serde_json::to_string(&m).unwrap_or_default())),
                            PState::Pending => {}
                        }
                        self.next();
                        continue;
                    }
                    return Block::Promises;
                }
                Stmt::Any(v) => {
                    // first fulfilled (call time: array order; later: first in time). Only generated
                    // for witnesses of KF-C08-1; modelled for inputs that are settled at call time.
                    let states: Vec<_> = v.iter().map(|i| self.qstate(*i).1).collect();
                    if let Some(Some(Ok(x))) = states.iter().find(|s| matches!(s, Some(Ok(_)))) {
                        self.log.push(format!("any={}", x));
                        self.next();
                        continue;
                    }
                    if states.iter().all(|s| matches!(s, Some(Err(_)))) {
                        let items: Vec<String> = states
                            .iter()
                            .map(|s| serde_json::to_string(s.as_ref().and_then(|r| r.as_ref().err()).map(|x| x.as_str()).unwrap_or("")).unwrap_or_default())
                            .collect();
                        self.log.push(format!("cany=[{}]", items.join(",")));
                        self.next();
                        continue;
                    }
                    return Block::Promises;
                }
                Stmt::AllSettled(v) => {
                    let states: Vec<_> = v.iter().map(|i| self.qstate(*i).1).collect();
                    if states.iter().all(|s| s.is_some()) {
                        let items: Vec<String> = states
                            .iter()
                            .map(|s| match s {
                                Some(Ok(x)) if x == "undefined" => "{\"status\":\"fulfilled\"}".to_string(),
                                Some(Ok(x)) => format!("{{\"status\":\"fulfilled\",\"value\":{}}}", x),
                                Some(Err(m)) => format!("{{\"status\":\"rejected\",\"reason\":{}}}", serde_json::to_string(m).unwrap_or_default()),
                                None => String::new(),
                            })
                            .collect();
                        self.log.push(format!("allSettled=[{}]", items.join(",")));
                        self.next();
                        continue;
                    }
                    return Block::Promises;
                }
                Stmt::Cancel(i) => {
                    self.required_cancels.push(i);
                    self.log.push(format!("x{}", i));
                    self.next();
                }
            }
        }
    }

    fn next(&mut self) {
        self.pc += 1;
        self.phase = 0;
        self.comb_waiting = false;
        self.comb_first_settle = None;
    }
}

// ───────────────────────────── generator ─────────────────────────────

pub fn generate_scn(rng: &mut Rng, allow_any_allsettled: bool, trailing_order: bool) -> Scn {
    let n_orders = 1 + rng.below(6);
    let mut answers: Vec<Ans> = Vec::new();
    let mut stmts: Vec<(Stmt, bool)> = Vec::new();
    let mut wrap_draws: Vec<u8> = Vec::new();
    // which orders are kept in q variables as promises (not yet consumed)
    let mut open_q: Vec<u8> = Vec::new(); // issued, value-or-promise in q_i, awaitable
    let mut cancelled: Vec<u8> = Vec::new();
    let mut markers: Vec<u8> = Vec::new(); // issued in a batch, not yet awaited
    let batches = rng.chance(0.4);
    let mut next: u8 = 1;
    let total = n_orders as u8;
    let mut guard = 0;
    while (next <= total || !open_q.is_empty() || !markers.is_empty()) && guard < 60 {
        guard += 1;
        let callee = rng.chance(0.3);
        wrap_draws.push(rng.below(4) as u8);
        let can_issue = next <= total;
        let r = rng.below(100);
        if can_issue && r < 30 {
            let a = match rng.below(10) {
                0..=3 => Ans::Value,
                4..=5 => Ans::Error,
                _ => Ans::Promise { linked: rng.chance(0.6), ok: rng.chance(0.75) },
            };
            answers.push(a);
            stmts.push((Stmt::AwaitOrder(next), callee));
            next += 1;
        } else if can_issue && r < 65 {
            let a = match rng.below(10) {
                0..=1 => Ans::Value,
                2 => Ans::Error,
                _ => Ans::Promise { linked: rng.chance(0.7), ok: rng.chance(0.75) },
            };
            answers.push(a);
            stmts.push((Stmt::Issue(next), callee));
            open_q.push(next);
            next += 1;
        } else if batches && next < total && r >= 60 && r < 72 {
            // a batch of 2..=3 orders through a native; answers are immediate values or errors
            // (KF-C07-6: a marker answered with a promise yields the promise itself when awaited)
            let n = (2 + rng.below(2)).min((total - next + 1) as usize);
            let mut v = Vec::new();
            for _ in 0..n {
                answers.push(if rng.chance(0.25) { Ans::Error } else { Ans::Value });
                v.push(next);
                markers.push(next);
                next += 1;
            }
            stmts.push((Stmt::Batch(v), false));
        } else if !markers.is_empty() && r >= 72 && r < 86 {
            // await one marker (each marker once), in any order relative to the batch
            let k = rng.below(markers.len());
            let i = markers.remove(k);
            stmts.push((Stmt::AwaitQ(i), callee));
        } else if !open_q.is_empty() && r < 80 {
            let k = rng.below(open_q.len());
            let i = open_q.remove(k);
            stmts.push((Stmt::AwaitQ(i), callee));
        } else if open_q.len() >= 2 && r < 93 {
            // combinator over 2..=3 kept values; consumes them
            let take = 2 + rng.below((open_q.len() - 1).min(2));
            let mut set = Vec::new();
            for _ in 0..take {
                let k = rng.below(open_q.len());
                set.push(open_q.remove(k));
            }
            let kind = rng.below(if allow_any_allsettled { 4 } else { 2 });
            // Promise.all: at most one rejecting member keeps the expected reason unambiguous
            let rejecting = set
                .iter()
                .filter(|i| matches!(answers[**i as usize - 1], Ans::Promise { ok: false, .. }))
                .count();
            let st = match kind {
                0 if rejecting <= 1 => Stmt::All(set.clone()),
                1 | 0 => Stmt::Race(set.clone()),
                2 => Stmt::Any(set.clone()),
                _ => Stmt::AllSettled(set.clone()),
            };
            if let Stmt::Race(_) = st {
                // race losers stay pending forever (host stops on cancellation): never await them again
            }
            stmts.push((st, callee));
        } else if !open_q.is_empty() && r < 97 {
            // explicit cancel of a kept, order-linked, promise-answered order
            if let Some(pos) = open_q.iter().position(|i| matches!(answers[*i as usize - 1], Ans::Promise { linked: true, .. })) {
                let i = open_q.remove(pos);
                cancelled.push(i);
                stmts.push((Stmt::Cancel(i), false));
            }
        } else if !can_issue && !open_q.is_empty() {
            let i = open_q.remove(0);
            stmts.push((Stmt::AwaitQ(i), callee));
        } else if !can_issue && !markers.is_empty() {
            let i = markers.remove(0);
            stmts.push((Stmt::AwaitQ(i), callee));
        }
    }
    if trailing_order {
        // a final order guarantees a Suspended after the last race / cancel (KF-C08-3 quarantine)
        answers.push(Ans::Value);
        stmts.push((Stmt::AwaitOrder(answers.len() as u8), false));
    }
    let trailing_unawaited = batches && rng.chance(0.3) && answers.len() <= 6;
    if trailing_unawaited {
        let a = answers.len() as u8 + 1;
        answers.push(Ans::Value);
        answers.push(Ans::Value);
        stmts.push((Stmt::Batch(vec![a, a + 1]), false));
    }
    let wrap: Vec<u8> = stmts.iter().enumerate().map(|(i, (_, callee))| if *callee { wrap_draws.get(i).copied().unwrap_or(0) } else { 0 }).collect();
    Scn {
        stmts,
        wrap,
        answers,
        tape: Tape::random(rng, 48),
        force_collect: rng.chance(0.3),
        gc_threshold: *rng.pick(&[0u32, 1, 3, 100]),
        f_unknown_id: rng.chance(0.4),
        f_duplicate: rng.chance(0.4),
        f_idle: rng.chance(0.5),
        trailing_unawaited,
    }
}

// ───────────────────────────── lockstep execution ─────────────────────────────

struct HostPromise {
    order: u8,
    rv: RuntimeValue,
    settled: bool,
    cancelled: bool,
}

pub fn execute_scn(scn: &Scn, rep: &mut RunReport) {
    tsrun::verif::reset();
    tsrun::verif::set_fuel(Some(2_000_000));
    let mut h = new_interp(0, 1);
    h.interp.set_gc_threshold(scn.gc_threshold as usize);
    let src = render(scn);
    let mut model = Model::new(scn);
    let mut tape = scn.tape.clone();
    let mut trace = String::new();
    let mut seen_ids: Vec<u64> = Vec::new();
    let mut cancelled_seen: Vec<u64> = Vec::new();
    let mut unanswered: Vec<(u64, u8)> = Vec::new(); // (id, order number)
    let mut answered_ids: Vec<u64> = Vec::new();
    let mut kept_orders: Vec<(u64, i64, RuntimeValue)> = Vec::new();
    let batch_orders: Vec<u8> = scn.stmts.iter().flat_map(|(st, _)| if let Stmt::Batch(v) = st { v.clone() } else { Vec::new() }).collect();
    let mut promises: Vec<HostPromise> = Vec::new();
    let mut keep: Vec<RuntimeValue> = Vec::new();
    let mut fruitless = 0u32;
    let mut rounds = 0u32;
    let fail = |rep: &mut RunReport, clause: &str, obs: String, detail: Value| {
        rep.fail(Failure::new(clause, obs, detail));
    };
    let mut result = h.interp.prepare(&src, None);
    let mut expected_block = model.run();
    loop {
        rounds += 1;
        if rounds > 400 {
            fail(rep, "no_termination_within_round_budget", "400 rounds".into(), json!({"trace": trace}));
            break;
        }
        // drive to the next non-Continue result
        let r = match result {
            Ok(StepResult::Continue) => {
                let mut r = h.interp.step();
                while let Ok(StepResult::Continue) = r {
                    r = h.interp.step();
                }
                r
            }
            other => other,
        };
        match r {
            Ok(StepResult::Suspended { pending, cancelled }) => {
                rep.bump("suspensions", 1);
                // ── invariants on the message ──
                let mut new_orders: Vec<u8> = Vec::new();
                for o in &pending {
                    let id = o.id.0;
                    if seen_ids.contains(&id) {
                        fail(rep, "order_reported_twice", format!("id {}", id), json!({"id": id, "trace": trace}));
                    }
                    if seen_ids.iter().any(|s| *s >= id) {
                        fail(rep, "order_id_not_fresh", format!("id {} after {:?}", id, seen_ids), json!({"id": id, "seen": seen_ids}));
                    }
                    seen_ids.push(id);
                    let k = api::get_property(o.payload.value(), "k").ok().and_then(|v| v.as_number()).unwrap_or(-1.0) as i64;
                    let shown = show_value(o.payload.value());
                    if k < 1 || shown != format!("{{\"k\":{}}}", k) {
                        fail(rep, "order_payload_corrupted", shown.clone(), json!({"id": id, "payload": shown}));
                    }
                    new_orders.push(k.max(0) as u8);
                    unanswered.push((id, k.max(0) as u8));
                    trace.push_str(&format!("P{}:{};", id, k));
                }
                for c in &cancelled {
                    trace.push_str(&format!("C{};", c.0));
                    if !seen_ids.contains(&c.0) {
                        fail(rep, "cancellation_names_unknown_order", format!("id {}", c.0), json!({"id": c.0, "seen": seen_ids}));
                    }
                    cancelled_seen.push(c.0);
                    for p in promises.iter_mut() {
                        if p.order as u64 == c.0 {
                            p.cancelled = true;
                        }
                    }
                    rep.bump("cancellations_delivered", 1);
                }
                // the host keeps every order (payload included) until the run is over and reads the
                // payloads again at every later report: they stay what the program passed
                for (kid, kk, rv) in kept_orders.iter() {
                    let now = show_value(rv.value());
                    if now != format!("{{\"k\":{}}}", kk) && rep.failure.is_none() {
                        fail(rep, "kept_order_payload_changed", now.clone(), json!({"id": kid, "order": kk, "payload_now": now, "trace": trace}));
                    }
                    rep.bump("kept_order_payloads_reread", 1);
                }
                for o in pending {
                    let k = api::get_property(o.payload.value(), "k").ok().and_then(|v| v.as_number()).unwrap_or(-1.0) as i64;
                    kept_orders.push((o.id.0, k, o.payload));
                }
                // ── lockstep with the model ──
                let model_new = std::mem::take(&mut model.newly_issued);
                if new_orders != model_new && rep.failure.is_none() {
                    let clause = if new_orders.len() < model_new.len() { "issued_order_not_reported" } else { "unexpected_order_reported" };
                    fail(rep, clause, format!("reported {:?} model {:?}", new_orders, model_new),
                        json!({"reported": new_orders, "model": model_new, "trace": trace, "model_log": model.log}));
                }
                if expected_block == Block::Done && model_new.is_empty() && rep.failure.is_none() {
                    fail(rep, "suspended_although_program_is_finished", trace.clone(), json!({"trace": trace, "model_log": model.log}));
                }
                // ── obligations ──
                let open_promises: Vec<usize> = (0..promises.len()).filter(|i| !promises[*i].settled && !promises[*i].cancelled).collect();
                if unanswered.is_empty() && open_promises.is_empty() {
                    fruitless += 1;
                    rep.bump("suspended_with_no_obligation", 1);
                    // the property allows no Suspended at all with nothing left for the host to do
                    if fruitless > 0 && rep.failure.is_none() {
                        fail(rep, "suspended_with_nothing_outstanding", trace.clone(),
                            json!({"trace": trace, "model_block": format!("{:?}", expected_block), "model_log": model.log}));
                    }
                    if rep.failure.is_some() {
                        break;
                    }
                    result = Ok(StepResult::Continue);
                    continue;
                }
                fruitless = 0;
                if rep.failure.is_some() {
                    break;
                }
                // ── host action ──
                if scn.force_collect && tape.chance(1, 3) {
                    h.interp.collect();
                    rep.bump("forced_collect", 1);
                }
                if scn.f_idle && tape.chance(1, 6) {
                    rep.bump("fault_idle_step", 1);
                    trace.push_str("idle;");
                    result = Ok(StepResult::Continue);
                    // nothing changed: the model stays where it is
                    continue;
                }
                if scn.f_unknown_id && tape.chance(1, 8) {
                    rep.bump("fault_answer_unknown_id", 1);
                    trace.push_str("unk;");
                    h.interp.fulfill_orders(vec![OrderResponse { id: OrderId(9000 + rounds as u64), result: Ok(RuntimeValue::unguarded(JsValue::Number(-1.0))) }]);
                }
                if scn.f_duplicate && !answered_ids.is_empty() && tape.chance(1, 8) {
                    rep.bump("fault_duplicate_answer", 1);
                    let id = answered_ids[tape.next(answered_ids.len())];
                    trace.push_str(&format!("dup{};", id));
                    h.interp.fulfill_orders(vec![OrderResponse { id: OrderId(id), result: Ok(RuntimeValue::unguarded(JsValue::Number(-2.0))) }]);
                }
                let do_answer = if !unanswered.is_empty() && !open_promises.is_empty() { tape.next(2) == 0 } else { !unanswered.is_empty() };
                if do_answer {
                    let (id, k) = unanswered.remove(tape.next(unanswered.len()));
                    // a duplicate answer to a batch order could arrive before the program has taken
                    // the first one (which of the two it then sees is not specified): duplicates are
                    // only sent for orders the program was blocked on
                    if !batch_orders.contains(&k) {
                        answered_ids.push(id);
                    }
                    let ans = scn.answers.get(k as usize - 1).cloned().unwrap_or(Ans::Value);
                    let res: Result<RuntimeValue, JsError> = match ans {
                        Ans::Value => Ok(RuntimeValue::unguarded(JsValue::Number(val_of(k) as f64))),
                        Ans::Error => {
                            rep.bump("fault_error_answer", 1);
                            Err(JsError::type_error(format!("E{}", k)))
                        }
                        Ans::Promise { linked, .. } => {
                            let p = if linked { api::create_order_promise(&mut h.interp, OrderId(id)) } else { api::create_promise(&mut h.interp) };
                            let alias = RuntimeValue::unguarded(p.value().clone());
                            promises.push(HostPromise { order: k, rv: p, settled: false, cancelled: false });
                            rep.bump("answers_with_pending_promise", 1);
                            Ok(alias)
                        }
                    };
                    trace.push_str(&format!("A{};", id));
                    h.interp.fulfill_orders(vec![OrderResponse { id: OrderId(id), result: res }]);
                    model.host_answers(k);
                } else {
                    // settle 1..n open promises in a tape-chosen order
                    let mut open = open_promises;
                    let take = 1 + tape.next(open.len());
                    for _ in 0..take {
                        let pi = open.remove(tape.next(open.len()));
                        let k = promises[pi].order;
                        let ok = matches!(scn.answers[k as usize - 1], Ans::Promise { ok: true, .. });
                        promises[pi].settled = true;
                        trace.push_str(&format!("S{}:{};", k, ok));
                        let r = if ok {
                            api::resolve_promise(&mut h.interp, &promises[pi].rv, RuntimeValue::unguarded(JsValue::Number(late_val_of(k) as f64)))
                        } else {
                            api::reject_promise(&mut h.interp, &promises[pi].rv, RuntimeValue::unguarded(JsValue::from(rej_of(k).as_str())))
                        };
                        if let Err(e) = r {
                            fail(rep, "settling_a_host_promise_failed", err_kind_msg(&e).1, json!({"order": k}));
                        }
                        model.host_settles(k);
                        rep.bump("late_settles", 1);
                        if open.is_empty() {
                            break;
                        }
                    }
                }
                expected_block = model.run();
                result = Ok(StepResult::Continue);
            }
            Ok(StepResult::Complete(v)) => {
                let got = show_value(v.value());
                trace.push_str("complete;");
                if scn.gc_threshold != 0 || scn.force_collect {
                    h.interp.collect();
                }
                for (kid, kk, rv) in kept_orders.iter() {
                    let now = show_value(rv.value());
                    if now != format!("{{\"k\":{}}}", kk) && rep.failure.is_none() {
                        fail(rep, "kept_order_payload_changed", now.clone(), json!({"id": kid, "order": kk, "payload_now": now, "trace": trace}));
                    }
                    rep.bump("kept_order_payloads_reread", 1);
                }
                // everything the model still owes?
                let tail = model.run();
                let expected = format!("s:{}", model.log.join(";"));
                if !model.newly_issued.is_empty() {
                    fail(rep, "issued_order_not_reported", format!("complete with unreported orders {:?}", model.newly_issued), json!({"model": model.newly_issued, "trace": trace, "model_log": model.log}));
                } else if !unanswered.is_empty() {
                    fail(rep, "complete_with_unanswered_order", format!("{:?}", unanswered), json!({"unanswered": unanswered, "trace": trace}));
                } else if tail != Block::Done {
                    fail(rep, "complete_before_program_end", got.clone(), json!({"model_block": format!("{:?}", tail), "model_log": model.log, "observed": got, "trace": trace}));
                } else if got != expected {
                    fail(rep, "final_log_differs_from_model", got.clone(), json!({"expected": expected, "observed": got, "trace": trace}));
                }
                // every cancellation event reaches the host exactly once: per order, the number of
                // notifications is at least the number of required events (explicit cancels, race
                // losers) and at most required + permitted (rejection notices)
                let mut ids: Vec<u64> = cancelled_seen.clone();
                ids.extend(model.required_cancels.iter().map(|c| *c as u64));
                ids.sort();
                ids.dedup();
                for id in ids {
                    let got = cancelled_seen.iter().filter(|c| **c == id).count();
                    let req = model.required_cancels.iter().filter(|c| **c as u64 == id).count();
                    let opt = model.optional_cancels.iter().filter(|c| **c as u64 == id).count();
                    if rep.failure.is_some() {
                        break;
                    }
                    if got < req {
                        fail(rep, "cancellation_never_delivered", format!("order {} delivered {} required {}", id, got, req),
                            json!({"required": model.required_cancels, "optional": model.optional_cancels, "delivered": cancelled_seen, "trace": trace}));
                    } else if got > req + opt {
                        let clause = if req + opt == 0 { "unexpected_cancellation" } else { "cancellation_delivered_twice" };
                        fail(rep, clause, format!("order {} delivered {} required {} permitted {}", id, got, req, opt),
                            json!({"required": model.required_cancels, "optional": model.optional_cancels, "delivered": cancelled_seen, "trace": trace}));
                    }
                }
                break;
            }
            Ok(StepResult::Done) => {
                // a run whose last statement issued orders that nobody awaits ends Suspended (orders
                // reported) and then Done - without a Complete, on this tree through every driver
                let tail = model.run();
                if scn.trailing_unawaited && tail == Block::Done && model.newly_issued.is_empty() {
                    rep.bump("runs_ending_done_after_trailing_batch", 1);
                } else {
                    fail(rep, "done_without_complete", trace.clone(), json!({"trace": trace, "model_log": model.log}));
                }
                break;
            }
            Ok(StepResult::NeedImports(_)) => {
                fail(rep, "unexpected_need_imports", trace.clone(), json!({}));
                break;
            }
            Ok(StepResult::Continue) => unreachable!(),
            Err(e) => {
                let (k, m) = err_kind_msg(&e);
                fail(rep, "run_failed_with_error", format!("{}:{}", k, m), json!({"kind": k, "message": m, "trace": trace, "model_log": model.log}));
                break;
            }
        }
    }
    keep.extend(promises.into_iter().map(|p| p.rv));
    let stale = tsrun::verif::take_stale_derefs();
    if !stale.is_empty() && rep.failure.is_none() {
        rep.fail(Failure::new("stale_deref", format!("{:?}", stale[0]), json!({"n": stale.len()})));
    }
    rep.sim_instructions = tsrun::verif::instructions();
    rep.nontrivial = seen_ids.len() >= 2 || !cancelled_seen.is_empty();
    rep.trace_hash = hash_str(&format!("{}|{}", src, trace));
    drop(keep);
    tsrun::verif::set_fuel(None);
}

impl Check for C08 {
    type Scn = Scn;
    fn id(&self) -> &'static str {
        "C08"
    }
    fn rule(&self) -> String {
        "orderDsl programs with up to 7 orders (await order, kept order results, await of kept promises, Promise.all / Promise.race over kept host promises, explicit __cancelOrder__ of issued orders, statements inside async callees; unique payloads) x tape-driven host schedules (answer with value / error / pending plain or order-linked promise; settle promises in any order and batch; answer unknown ids; duplicate answers; idle steps; forced collections). An executable reference model (order ledger + host promises + combinator semantics) runs in lockstep: per Suspended it predicts the newly issued orders and whether the program may be blocked; at the end the log, the required and permitted cancellations. non-trivial = at least two orders or a cancellation crossed the transport; distinct = distinct (program text, event trace). Batch statements: orders issued through a native ([..].map(order)), markers awaited later in any order (each once), answers in any order, also as the last statement with nobody awaiting them (run ends Suspended then Done). Strict rule: a Suspended with no unanswered order and no unsettled host promise is a violation at once. The host keeps every order payload and re-reads all of them at each later report and at Complete".into()
    }
    fn components(&self) -> Value {
        json!({"real": ["Interpreter step/fulfill_orders", "order ledger (pending/cancelled/responses)", "wait graph", "promise builtins incl. all/race", "api::create_promise/create_order_promise/resolve/reject", "tsrun:host module"],
               "stub": ["host side of the protocol (choice tape)", "reference model of ledger/promises/combinators"],
               "not_run": ["Promise.any / Promise.allSettled over pending host promises (KF-C08-1/2, witnesses only)", "ffi order API (C17)"]})
    }
    fn assumptions(&self) -> Vec<String> {
        vec![
            "cancelling a number that was never issued as an order is program misuse of an internal entry point and is not generated".into(),
            "tsrun reports the order of a rejected order-linked promise as cancelled; the model permits (does not require) that notification".into(),
            "every generated program ends with one more awaited order, so that a Suspended follows the last race/cancel (KF-C08-3 is replayed as a witness instead)".into(),
        ]
    }
    fn generate(&self, rng: &mut Rng, _idx: usize, _tier: Tier) -> Scn {
        generate_scn(rng, false, true)
    }
    fn shrink(&self, scn: &Scn) -> Vec<Scn> {
        let mut out = Vec::new();
        if !scn.tape.v.is_empty() {
            out.push(Scn { tape: Tape::from_vec(vec![]), ..scn.clone() });
            let h = scn.tape.v.len() / 2;
            out.push(Scn { tape: Tape::from_vec(scn.tape.v[..h].to_vec()), ..scn.clone() });
        }
        for f in 0..4 {
            let mut s = scn.clone();
            match f {
                0 if s.f_unknown_id => s.f_unknown_id = false,
                1 if s.f_duplicate => s.f_duplicate = false,
                2 if s.f_idle => s.f_idle = false,
                3 if s.force_collect || s.gc_threshold != 0 => {
                    s.force_collect = false;
                    s.gc_threshold = 0;
                }
                _ => continue,
            }
            out.push(s);
        }
        // drop a statement (only when the order numbering stays dense: drop statements that issue
        // the highest order, or that issue none)
        let maxo = scn.answers.len() as u8;
        for i in 0..scn.stmts.len() {
            let issues = match &scn.stmts[i].0 {
                Stmt::AwaitOrder(k) | Stmt::Issue(k) => Some(*k),
                _ => None,
            };
            let uses = |k: u8| scn.stmts.iter().enumerate().any(|(j, (s, _))| {
                j != i && match s {
                    Stmt::AwaitQ(x) | Stmt::Cancel(x) => *x == k,
                    Stmt::All(v) | Stmt::Race(v) | Stmt::Any(v) | Stmt::AllSettled(v) => v.contains(&k),
                    _ => false,
                }
            });
            match issues {
                Some(k) if k == maxo && !uses(k) => {
                    let mut s = scn.clone();
                    s.stmts.remove(i);
                    if i < s.wrap.len() {
                        s.wrap.remove(i);
                    }
                    s.answers.pop();
                    out.push(s);
                }
                None => {
                    let mut s = scn.clone();
                    s.stmts.remove(i);
                    if i < s.wrap.len() {
                        s.wrap.remove(i);
                    }
                    out.push(s);
                }
                _ => {}
            }
            if scn.stmts[i].1 {
                let mut s = scn.clone();
                s.stmts[i].1 = false;
                out.push(s);
                if scn.wrap.get(i).copied().unwrap_or(0) != 0 {
                    let mut s = scn.clone();
                    s.wrap[i] = 0;
                    out.push(s);
                }
            }
        }
        for i in 0..scn.answers.len() {
            if scn.answers[i] != Ans::Value {
                let simpler = match scn.answers[i] {
                    Ans::Promise { linked: true, ok } => Ans::Promise { linked: false, ok },
                    Ans::Promise { ok: false, linked } => Ans::Promise { ok: true, linked },
                    _ => Ans::Value,
                };
                let mut s = scn.clone();
                s.answers[i] = simpler;
                out.push(s);
            }
        }
        out
    }
    fn execute(&self, scn: &Scn) -> RunReport {
        let mut rep = RunReport::default();
        execute_scn(scn, &mut rep);
        rep
    }
}
