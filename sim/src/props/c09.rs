//! C09 — Module graphs load once, dependencies first, whatever the host's order.
//!
//! Real interpreter and module machinery; the host and the module store are simulated. Random
//! DAGs of 2..8 modules with named/default/namespace imports, re-exports, diamonds and
//! equivalent spellings of the same file; every body logs `run <name>` once and exports a value
//! that is a closed-form function of its imports; some export a live counter. The host delivers
//! requested sources in any order and batching, early (unrequested), duplicated, or not at all
//! for a round. A reference model (independent resolver + expected values) is the oracle.

use crate::framework::{Check, Failure, RunReport, Tier};
use crate::host::{err_kind_msg, new_interp, show_value};
use crate::rng::{Rng, Tape, hash_str};
use serde::{Deserialize, Serialize};
use serde_json::{Value, json};
use std::collections::{BTreeMap, BTreeSet};
use tsrun::{ModulePath, StepResult, api};

#[derive(Clone, Debug, Serialize, Deserialize, PartialEq)]
pub enum ImportKind {
    Named,
    Default,
    Namespace,
    /// `export { v as re_<dep> } from` — the importer re-exports the value
    ReExport,
    /// `export * as ns_<dep> from`
    ReExportNs,
    /// `import { v as iv_<dep> } from …; export { iv_<dep> as re_<dep> };` — an imported binding
    /// exported under another name (an indirect export written as two statements)
    ImportThenExportAs,
    /// `import { v as re_<dep> } from …; export { re_<dep> };`
    ImportThenExport,
}

#[derive(Clone, Debug, Serialize, Deserialize)]
pub struct Edge {
    pub to: usize,
    pub kind: ImportKind,
    /// the specifier exactly as written in the importer
    pub spec: String,
}

#[derive(Clone, Debug, Serialize, Deserialize)]
pub struct Module {
    pub name: String,
    /// canonical absolute path
    pub path: String,
    pub constant: i64,
    pub edges: Vec<Edge>,
    pub has_counter: bool,
}

#[derive(Clone, Debug, Serialize, Deserialize)]
pub struct Scn {
    /// modules[0] is the entry program
    pub modules: Vec<Module>,
    pub tapes: Vec<Tape>,
    /// index of a module with a live counter that main bumps, and a chain of modules that
    /// re-export that counter hop by hop (chain[0] from the counter module, chain[1] from
    /// chain[0], ...); main reads it through the last hop
    pub live: Option<(usize, Vec<usize>)>,
    pub gc_threshold: u32,
    /// how the counter module exports its counter: 0 `export let counter`, 1 a local exported
    /// under another name (`export { c0 as counter }`), 2 `let counter; export { counter }`
    #[serde(default)]
    pub counter_style: u8,
    /// per hop of the chain: 0 `export { x as chained_counter } from`, 1 import then
    /// `export { x as chained_counter }`, 2 import under a temporary name then export renamed
    #[serde(default)]
    pub chain_styles: Vec<u8>,
    /// the host may also supply the entry program's own source under its own path (unrequested)
    #[serde(default)]
    pub supply_entry: bool,
}

pub struct C09;

/// Independent resolver (the model): join to the importer's directory, drop '.' and empty
/// segments, pop on '..', never above the root, no trailing slash.
pub fn model_resolve(spec: &str, importer: &str) -> String {
    let joined = if spec.starts_with('/') {
        spec.to_string()
    } else {
        let dir = match importer.rfind('/') {
            Some(i) => &importer[..i],
            None => "",
        };
        format!("{}/{}", dir, spec)
    };
    let mut segs: Vec<&str> = Vec::new();
    for s in joined.split('/') {
        match s {
            "" | "." => {}
            ".." => {
                segs.pop();
            }
            x => segs.push(x),
        }
    }
    format!("/{}", segs.join("/"))
}

fn dir_of(path: &str) -> Vec<String> {
    let mut v: Vec<String> = path.split('/').filter(|s| !s.is_empty()).map(|s| s.to_string()).collect();
    v.pop();
    v
}

/// A spelling of `target` as seen from `importer` (both canonical absolute paths).
fn spell(rng: &mut Rng, importer: &str, target: &str) -> String {
    let from = dir_of(importer);
    let to_dir = dir_of(target);
    let file = target.rsplit('/').next().unwrap_or("").to_string();
    let mut common = 0;
    while common < from.len() && common < to_dir.len() && from[common] == to_dir[common] {
        common += 1;
    }
    let ups = from.len() - common;
    let mut rel = String::new();
    if ups == 0 {
        rel.push_str("./");
    } else {
        for _ in 0..ups {
            rel.push_str("../");
        }
    }
    for d in &to_dir[common..] {
        rel.push_str(d);
        rel.push('/');
    }
    rel.push_str(&file);
    match rng.below(6) {
        0 => target.to_string(), // absolute
        1 => {
            // detour through a directory and back
            let r = rel.trim_start_matches("./").to_string();
            if rel.starts_with("./") { format!("./zz/../{}", r) } else { rel }
        }
        2 => {
            if rel.starts_with("./") { format!("././{}", rel.trim_start_matches("./")) } else { rel }
        }
        3 => {
            // double slash inside
            if let Some(i) = rel.rfind('/') { format!("{}//{}", &rel[..i], &rel[i + 1..]) } else { rel }
        }
        _ => rel,
    }
}

pub fn generate_graph(rng: &mut Rng) -> Scn {
    let n = 2 + rng.below(7);
    let dirs = ["", "/p", "/p/q", "/lib", "/p/r"];
    let mut modules: Vec<Module> = Vec::new();
    for i in 0..n {
        let d = dirs[rng.below(dirs.len())];
        let name = if i == 0 { "main".to_string() } else { format!("m{}", i) };
        modules.push(Module {
            name: name.clone(),
            path: format!("{}/{}.ts", d, name),
            constant: 1 + rng.below(9) as i64 + (i as i64) * 10,
            edges: Vec::new(),
            has_counter: i > 0 && rng.chance(0.35),
        });
    }
    // edges i -> j only for j > i (acyclic); make sure every module is reachable from main
    for j in 1..n {
        let parent = rng.below(j);
        let kind = pick_kind(rng);
        let spec = spell(rng, &modules[parent].path.clone(), &modules[j].path.clone());
        modules[parent].edges.push(Edge { to: j, kind, spec });
    }
    let extra = rng.below(n + 1);
    for _ in 0..extra {
        let i = rng.below(n - 1);
        let j = i + 1 + rng.below(n - 1 - i);
        if modules[i].edges.iter().any(|e| e.to == j) {
            continue;
        }
        let kind = pick_kind(rng);
        let spec = spell(rng, &modules[i].path.clone(), &modules[j].path.clone());
        modules[i].edges.push(Edge { to: j, kind, spec });
    }
    // live binding probe
    let counters: Vec<usize> = (1..n).filter(|i| modules[*i].has_counter).collect();
    let live = if counters.is_empty() {
        None
    } else {
        let c = counters[rng.below(counters.len())];
        // 0..3 hops: modules with decreasing indices below c (edges go from lower to higher index)
        let mut chain: Vec<usize> = Vec::new();
        let mut upper = c;
        let hops = rng.below(4);
        for _ in 0..hops {
            if upper <= 1 {
                break;
            }
            let k = 1 + rng.below(upper - 1);
            chain.push(k);
            upper = k;
        }
        Some((c, chain))
    };
    let tapes = (0..6)
        .map(|i| if i == 0 { Tape::from_vec(vec![]) } else { Tape::random(rng, 40) })
        .collect();
    let gc_threshold = *rng.pick(&[0u32, 1, 3, 100]);
    let counter_style = rng.below(3) as u8;
    let chain_styles = (0..3).map(|_| rng.below(3) as u8).collect();
    let supply_entry = rng.chance(0.3);
    Scn { modules, tapes, live, gc_threshold, counter_style, chain_styles, supply_entry }
}

fn pick_kind(rng: &mut Rng) -> ImportKind {
    match rng.below(10) {
        0..=2 => ImportKind::Named,
        3..=4 => ImportKind::Default,
        5..=6 => ImportKind::Namespace,
        7..=8 => rng.pick(&[ImportKind::ReExport, ImportKind::ImportThenExportAs, ImportKind::ImportThenExport]).clone(),
        _ => ImportKind::ReExportNs,
    }
}

fn is_value_reexport(k: &ImportKind) -> bool {
    matches!(k, ImportKind::ReExport | ImportKind::ImportThenExportAs | ImportKind::ImportThenExport)
}

/// Re-exports of main's namespace-imported dependencies that main reads back:
/// (namespace local, property expression, module whose v is expected).
fn observed_reexports(scn: &Scn) -> Vec<(String, usize)> {
    let mut out = Vec::new();
    if let Some(m0) = scn.modules.first() {
        for e in &m0.edges {
            if e.kind != ImportKind::Namespace {
                continue;
            }
            let dep = &scn.modules[e.to];
            for e2 in &dep.edges {
                let d2 = &scn.modules[e2.to].name;
                if is_value_reexport(&e2.kind) {
                    out.push((format!("ns_{}.re_{}", dep.name, d2), e2.to));
                } else if e2.kind == ImportKind::ReExportNs {
                    out.push((format!("ns_{}.rns_{}.v", dep.name, d2), e2.to));
                }
            }
        }
    }
    out
}

/// Expected exported value v of every module (closed form).
pub fn expected_values(scn: &Scn) -> Vec<i64> {
    let n = scn.modules.len();
    let mut v = vec![0i64; n];
    for i in (0..n).rev() {
        let m = &scn.modules[i];
        let mut s = m.constant;
        for e in &m.edges {
            s += match e.kind {
                ImportKind::Named | ImportKind::Namespace => v[e.to],
                ImportKind::Default => 2 * v[e.to],
                // re-exports do not contribute to the importer's own value
                ImportKind::ReExport | ImportKind::ReExportNs | ImportKind::ImportThenExportAs | ImportKind::ImportThenExport => 0,
            };
        }
        v[i] = s;
    }
    v
}

pub fn source_of(scn: &Scn, i: usize) -> String {
    let m = &scn.modules[i];
    let mut s = String::new();
    let mut terms: Vec<String> = vec![m.constant.to_string()];
    for e in &m.edges {
        let d = &scn.modules[e.to].name;
        match e.kind {
            ImportKind::Named => {
                s.push_str(&format!("import {{ v as v_{d} }} from \"{}\";\n", e.spec));
                terms.push(format!("v_{d}"));
            }
            ImportKind::Default => {
                s.push_str(&format!("import d_{d} from \"{}\";\n", e.spec));
                terms.push(format!("d_{d}"));
            }
            ImportKind::Namespace => {
                s.push_str(&format!("import * as ns_{d} from \"{}\";\n", e.spec));
                terms.push(format!("ns_{d}.v"));
            }
            ImportKind::ReExport => {
                s.push_str(&format!("export {{ v as re_{d} }} from \"{}\";\n", e.spec));
            }
            ImportKind::ReExportNs => {
                s.push_str(&format!("export * as rns_{d} from \"{}\";\n", e.spec));
            }
            ImportKind::ImportThenExportAs => {
                s.push_str(&format!("import {{ v as iv_{d} }} from \"{}\";\nexport {{ iv_{d} as re_{d} }};\n", e.spec));
            }
            ImportKind::ImportThenExport => {
                s.push_str(&format!("import {{ v as re_{d} }} from \"{}\";\nexport {{ re_{d} }};\n", e.spec));
            }
        }
    }
    // counter re-export chain
    if let Some((c, chain)) = &scn.live
        && let Some(pos) = chain.iter().position(|k| *k == i)
    {
        let (from_name, from_path) = if pos == 0 { ("counter", &scn.modules[*c].path) } else { ("chained_counter", &scn.modules[chain[pos - 1]].path) };
        let mut style = scn.chain_styles.get(pos).copied().unwrap_or(0);
        if style == 1 && from_name == "counter" && m.has_counter {
            // this hop declares a counter of its own: import the foreign one under another name
            style = 2;
        }
        match style {
            1 if from_name == "counter" => s.push_str(&format!("import {{ counter }} from \"{from_path}\";\nexport {{ counter as chained_counter }};\n")),
            1 => s.push_str(&format!("import {{ chained_counter }} from \"{from_path}\";\nexport {{ chained_counter }};\n")),
            2 => s.push_str(&format!("import {{ {from_name} as tmp_cc }} from \"{from_path}\";\nexport {{ tmp_cc as chained_counter }};\n")),
            _ if from_name == "counter" => s.push_str(&format!("export {{ counter as chained_counter }} from \"{from_path}\";\n")),
            _ => s.push_str(&format!("export {{ chained_counter }} from \"{from_path}\";\n")),
        }
    }
    s.push_str(&format!("console.log(\"run {}\");\n", m.name));
    s.push_str(&format!("export const v: number = {};\n", terms.join(" + ")));
    s.push_str("export default v * 2;\n");
    if m.has_counter {
        match scn.counter_style {
            1 => s.push_str("let c0: number = 0;\nexport { c0 as counter };\nexport function bump(): number { c0 += 1; return c0; }\n"),
            2 => s.push_str("let counter: number = 0;\nexport { counter };\nexport function bump(): number { counter += 1; return counter; }\n"),
            _ => s.push_str("export let counter: number = 0;\nexport function bump(): number { counter += 1; return counter; }\n"),
        }
    }
    if i == 0 {
        // main: result = its own value plus the live-binding observations
        let mut tail = String::from("const __out: any[] = [v];\n");
        if let Some((c, chain)) = scn.live.clone() {
            let via = chain.last().copied();
            let cm = &scn.modules[c];
            let spec_c = model_relative(&scn.modules[0].path, &cm.path);
            tail = format!(
                "import {{ counter as live_c, bump as live_bump }} from \"{}\";\nimport * as live_ns from \"{}\";\n{}",
                spec_c, spec_c, tail
            );
            if let Some(k) = via {
                let spec_k = model_relative(&scn.modules[0].path, &scn.modules[k].path);
                tail = format!("import {{ chained_counter }} from \"{}\";\n{}", spec_k, tail);
            }
            tail.push_str("__out.push(live_c); live_bump(); live_bump(); __out.push(live_c);\n");
            if via.is_some() {
                tail.push_str("__out.push(chained_counter);\n");
            }
            tail.push_str("__out.push(live_ns.counter);\n");
        }
        for (expr, _) in observed_reexports(scn) {
            tail.push_str(&format!("__out.push({});\n", expr));
        }
        tail.push_str("JSON.stringify(__out)\n");
        // imports must come first: split
        let (imports, rest): (Vec<&str>, Vec<&str>) = tail.lines().partition(|l| l.starts_with("import "));
        let mut full = String::new();
        for l in imports {
            full.push_str(l);
            full.push('\n');
        }
        full.push_str(&s);
        for l in rest {
            full.push_str(l);
            full.push('\n');
        }
        return full;
    }
    s
}

fn model_relative(_importer: &str, target: &str) -> String {
    // absolute spelling: always canonical, independent of the importer's directory
    target.to_string()
}

pub fn expected_result(scn: &Scn) -> String {
    let v = expected_values(scn);
    let mut out: Vec<i64> = vec![v[0]];
    if let Some((_, chain)) = &scn.live {
        out.push(0);
        out.push(2);
        if !chain.is_empty() {
            out.push(2);
        }
        out.push(2);
    }
    for (_, m) in observed_reexports(scn) {
        out.push(v[m]);
    }
    format!("s:[{}]", out.iter().map(|x| x.to_string()).collect::<Vec<_>>().join(","))
}

/// All modules main needs (graph reachability incl. the live-probe imports).
fn all_edges(scn: &Scn) -> Vec<(usize, usize)> {
    let mut e: Vec<(usize, usize)> = Vec::new();
    for (i, m) in scn.modules.iter().enumerate() {
        for ed in &m.edges {
            e.push((i, ed.to));
        }
    }
    if let Some((c, chain)) = &scn.live {
        e.push((0, *c));
        for (pos, k) in chain.iter().enumerate() {
            e.push((*k, if pos == 0 { *c } else { chain[pos - 1] }));
        }
        if let Some(k) = chain.last() {
            e.push((0, *k));
        }
    }
    e
}

struct OneRun {
    result: String,
    console: Vec<String>,
    trace: String,
    exports: Vec<(String, String)>,
}

fn run_schedule(scn: &Scn, tape: &Tape, rep: &mut RunReport, si: usize) -> Option<OneRun> {
    tsrun::verif::reset();
    tsrun::verif::set_fuel(Some(2_000_000));
    let mut h = new_interp(0, 1);
    h.interp.set_gc_threshold(scn.gc_threshold as usize);
    let mut tape = tape.clone();
    let by_path: BTreeMap<String, usize> = scn.modules.iter().enumerate().map(|(i, m)| (m.path.clone(), i)).collect();
    let mut provided: BTreeSet<String> = BTreeSet::new();
    let mut entry_supplied = false;
    let mut requested_ever: BTreeSet<String> = BTreeSet::new();
    let mut trace = String::new();
    let main = &scn.modules[0];
    let fail = |rep: &mut RunReport, clause: &str, obs: String, detail: Value| {
        let mut d = detail;
        d["schedule_index"] = json!(si);
        rep.fail(Failure::new(clause, obs, d));
    };
    if scn.supply_entry && scn.gc_threshold % 2 == 1 {
        // the same host, even more eager: it hands the entry's source over under the entry's path
        // BEFORE it prepares the program
        if h.interp.provide_module(ModulePath::new(main.path.clone()), &source_of(scn, 0)).is_ok() {
            entry_supplied = true;
            rep.bump("fault_entry_module_supplied_before_prepare", 1);
            trace.push_str("pre:entry;");
        }
    }
    let mut r = h.interp.prepare(&source_of(scn, 0), Some(ModulePath::new(main.path.clone())));
    let mut rounds = 0usize;
    let mut last_request: Option<BTreeSet<String>> = None;
    let mut idle_last = false;
    let result;
    loop {
        rounds += 1;
        if rounds > 4 * scn.modules.len() + 40 {
            fail(rep, "loading_does_not_terminate", format!("{} rounds", rounds), json!({"trace": trace}));
            return None;
        }
        let cur = match r {
            Ok(StepResult::Continue) => {
                let mut x = h.interp.step();
                while let Ok(StepResult::Continue) = x {
                    x = h.interp.step();
                }
                x
            }
            other => other,
        };
        match cur {
            Ok(StepResult::NeedImports(reqs)) => {
                rep.bump("import_rounds", 1);
                let mut seen: BTreeSet<String> = BTreeSet::new();
                trace.push_str("need[");
                for q in &reqs {
                    let rp = q.resolved_path.as_str().to_string();
                    trace.push_str(&format!("{}<{};", rp, q.importer.as_ref().map(|p| p.as_str()).unwrap_or("-")));
                    if !seen.insert(rp.clone()) {
                        fail(rep, "module_requested_twice_in_one_list", rp.clone(), json!({"trace": trace}));
                    }
                    // canonical path per the model
                    let importer_path = q.importer.as_ref().map(|p| p.as_str().to_string()).unwrap_or_else(|| main.path.clone());
                    let expect = model_resolve(&q.specifier, &importer_path);
                    if expect != rp {
                        fail(rep, "resolved_path_not_canonical", rp.clone(), json!({"specifier": q.specifier, "importer": importer_path, "expected": expect, "observed": rp}));
                    }
                    // importer is the module whose source contains the specifier
                    let imp_idx = by_path.get(&importer_path).copied();
                    let src_has = imp_idx.map(|i| source_of(scn, i).contains(&format!("\"{}\"", q.specifier))).unwrap_or(false);
                    if !src_has {
                        fail(rep, "importer_does_not_contain_specifier", format!("{} in {}", q.specifier, importer_path), json!({"trace": trace}));
                    }
                    if q.importer.is_none() != (importer_path == main.path) {
                        fail(rep, "importer_field_wrong", format!("{:?}", q.importer.as_ref().map(|p| p.as_str())), json!({}));
                    }
                    if provided.contains(&rp) {
                        fail(rep, "delivered_module_requested_again", rp.clone(), json!({"trace": trace, "provided": provided}));
                    }
                    requested_ever.insert(rp);
                }
                trace.push_str("];");
                if idle_last
                    && let Some(prev) = &last_request
                    && *prev != seen
                {
                    fail(rep, "request_changed_after_idle_step", format!("{:?} -> {:?}", prev, seen), json!({}));
                }
                if rep.failure.is_some() {
                    return None;
                }
                last_request = Some(seen.clone());
                idle_last = false;
                // ── host action ──
                if tape.chance(1, 7) {
                    rep.bump("fault_idle_round", 1);
                    trace.push_str("idle;");
                    idle_last = true;
                    r = Ok(StepResult::Continue);
                    continue;
                }
                if tape.chance(1, 5) {
                    // early delivery of a graph module nobody asked for yet
                    let cands: Vec<&Module> = scn.modules.iter().skip(1).filter(|m| !provided.contains(&m.path) && !seen.contains(&m.path)).collect();
                    if !cands.is_empty() {
                        let m = cands[tape.next(cands.len())];
                        let idx = by_path[&m.path];
                        if h.interp.provide_module(ModulePath::new(m.path.clone()), &source_of(scn, idx)).is_ok() {
                            provided.insert(m.path.clone());
                            rep.bump("fault_early_delivery", 1);
                            trace.push_str(&format!("early:{};", m.path));
                        }
                    }
                }
                if scn.supply_entry && !entry_supplied && tape.chance(1, 3) {
                    // a host that hands over every file it knows: the entry program's own source under
                    // its own path, while that program is already waiting for its imports
                    let m = &scn.modules[0];
                    if h.interp.provide_module(ModulePath::new(m.path.clone()), &source_of(scn, 0)).is_ok() {
                        entry_supplied = true;
                        rep.bump("fault_entry_module_supplied_as_dependency", 1);
                        trace.push_str("early:entry;");
                    }
                }
                if tape.chance(1, 5) && !provided.is_empty() {
                    let ps: Vec<String> = provided.iter().cloned().collect();
                    let p = ps[tape.next(ps.len())].clone();
                    if let Some(idx) = by_path.get(&p) {
                        let _ = h.interp.provide_module(ModulePath::new(p.clone()), &source_of(scn, *idx));
                        rep.bump("fault_duplicate_delivery", 1);
                        trace.push_str(&format!("dup:{};", p));
                    }
                }
                // deliver a non-empty subset of the request in a tape-chosen order
                let mut want: Vec<String> = seen.iter().cloned().collect();
                let take = if tape.pos >= tape.v.len() { want.len() } else { 1 + tape.next(want.len()) };
                for _ in 0..take {
                    let p = want.remove(tape.next(want.len()));
                    match by_path.get(&p) {
                        Some(idx) => {
                            if let Err(e) = h.interp.provide_module(ModulePath::new(p.clone()), &source_of(scn, *idx)) {
                                fail(rep, "provide_module_failed", err_kind_msg(&e).1, json!({"path": p}));
                                return None;
                            }
                            provided.insert(p.clone());
                            trace.push_str(&format!("give:{};", p));
                        }
                        None => {
                            fail(rep, "request_for_module_outside_the_graph", p.clone(), json!({"trace": trace}));
                            return None;
                        }
                    }
                    if want.is_empty() {
                        break;
                    }
                }
                if take < seen.len() {
                    rep.bump("partial_delivery_rounds", 1);
                }
                r = Ok(StepResult::Continue);
            }
            Ok(StepResult::Complete(v)) => {
                result = format!("{}", show_value(v.value()));
                break;
            }
            Ok(other) => {
                fail(rep, "unexpected_step_result", format!("{:?}", other).chars().take(80).collect(), json!({"trace": trace}));
                return None;
            }
            Err(e) => {
                let (k, m) = err_kind_msg(&e);
                fail(rep, "loading_failed_with_error", format!("{}:{}", k, m), json!({"trace": trace}));
                return None;
            }
        }
    }
    let console = h.console.borrow().clone();
    let mut names = h.interp.get_export_names();
    names.sort();
    let exports = names
        .into_iter()
        .map(|n| {
            let v = api::get_export(&h.interp, &n).map(|v| show_value(&v)).unwrap_or_default();
            (n, v)
        })
        .collect();
    rep.sim_instructions += tsrun::verif::instructions();
    tsrun::verif::set_fuel(None);
    Some(OneRun { result, console, trace, exports })
}

impl Check for C09 {
    type Scn = Scn;
    fn id(&self) -> &'static str {
        "C09"
    }
    fn rule(&self) -> String {
        "random DAGs of 2-8 modules in a small directory tree (entry in /, /p, /p/q, /lib, /p/r) with named / default / namespace imports, renamed and namespace re-exports, diamonds, equivalent spellings of one file (./a.ts, ./zz/../a.ts, ././a.ts, a//b, absolute), live counters read directly and through a re-export chain; x 6 host delivery schedules per graph (any subset and order per round, early unrequested delivery, duplicate delivery, idle rounds; GC threshold varied). Oracle: reference resolver and closed-form values; per request list no duplicates, canonical paths, correct importer, nothing delivered is requested again; termination; every body runs exactly once and after its imports; result, exports and live bindings equal the closed form under every schedule. non-trivial = at least two import rounds or a delivery fault fired; distinct = distinct (graph digest, delivery traces)".into()
    }
    fn components(&self) -> Value {
        json!({"real": ["Interpreter prepare/step/provide_module", "ModulePath::resolve", "process_pending_modules / execute_pending_module", "module namespace getters (live bindings)", "parser/compiler/VM for module bodies"],
               "stub": ["host + in-memory module store", "reference resolver and closed-form value model"],
               "not_run": ["internal source modules (C19 covers roles)", "ffi"]})
    }
    fn assumptions(&self) -> Vec<String> {
        vec![
            "module bodies never touch shared global state, so the expected result does not depend on the order among independent ready modules (the oracle checks the partial order only)".into(),
        ]
    }
    fn generate(&self, rng: &mut Rng, _idx: usize, _tier: Tier) -> Scn {
        generate_graph(rng)
    }
    fn shrink(&self, scn: &Scn) -> Vec<Scn> {
        let mut out = Vec::new();
        if scn.tapes.len() > 1 {
            for t in &scn.tapes {
                out.push(Scn { tapes: vec![t.clone()], ..scn.clone() });
            }
        } else if let Some(t) = scn.tapes.first()
            && !t.v.is_empty()
        {
            out.push(Scn { tapes: vec![Tape::from_vec(vec![])], ..scn.clone() });
            out.push(Scn { tapes: vec![Tape::from_vec(t.v[..t.v.len() / 2].to_vec())], ..scn.clone() });
        }
        if scn.live.is_some() {
            out.push(Scn { live: None, ..scn.clone() });
        }
        if let Some((c, chain)) = &scn.live
            && !chain.is_empty()
        {
            let mut ch = chain.clone();
            ch.pop();
            out.push(Scn { live: Some((*c, ch)), ..scn.clone() });
        }
        // remove an edge (keeping every module reachable is not required: unreachable modules are simply never requested)
        for i in 0..scn.modules.len() {
            for e in 0..scn.modules[i].edges.len() {
                let mut s = scn.clone();
                let to = s.modules[i].edges[e].to;

                s.modules[i].edges.remove(e);
                out.push(s);
            }
        }
        // simplify spellings
        for i in 0..scn.modules.len() {
            for e in 0..scn.modules[i].edges.len() {
                let canon = scn.modules[scn.modules[i].edges[e].to].path.clone();
                if scn.modules[i].edges[e].spec != canon {
                    let mut s = scn.clone();
                    s.modules[i].edges[e].spec = canon;
                    out.push(s);
                }
                if scn.modules[i].edges[e].kind != ImportKind::Named {
                    let mut s = scn.clone();
                    s.modules[i].edges[e].kind = ImportKind::Named;
                    out.push(s);
                }
            }
        }
        if scn.gc_threshold != 0 {
            out.push(Scn { gc_threshold: 0, ..scn.clone() });
        }
        out
    }

    fn execute(&self, scn: &Scn) -> RunReport {
        let mut rep = RunReport::default();
        let expected = expected_result(scn);
        let edges = all_edges(scn);
        // modules reachable from main
        let mut reach: BTreeSet<usize> = BTreeSet::new();
        let mut stack = vec![0usize];
        while let Some(x) = stack.pop() {
            if reach.insert(x) {
                for (a, b) in &edges {
                    if *a == x {
                        stack.push(*b);
                    }
                }
            }
        }
        let mut digest = String::new();
        let mut first: Option<(String, Vec<(String, String)>)> = None;
        let mut rounds_total = 0;
        for (si, t) in scn.tapes.iter().enumerate() {
            let before = rep.counters.get("import_rounds").copied().unwrap_or(0);
            let Some(run) = run_schedule(scn, t, &mut rep, si) else { break };
            rounds_total += rep.counters.get("import_rounds").copied().unwrap_or(0) - before;
            digest.push_str(&run.trace);
            digest.push('|');
            let f = |clause: &str, obs: String, detail: Value| Failure::new(clause, obs, detail);
            // every reachable body exactly once, dependencies first
            let runs: Vec<String> = run.console.iter().filter_map(|l| l.strip_prefix("log:run ").map(|s| s.to_string())).collect();
            for i in &reach {
                let name = &scn.modules[*i].name;
                let c = runs.iter().filter(|r| *r == name).count();
                if c != 1 && rep.failure.is_none() {
                    rep.fail(f(
                        if c == 0 { "module_body_never_ran" } else { "module_body_ran_more_than_once" },
                        format!("{} ran {} times", name, c),
                        json!({"schedule_index": si, "console": run.console, "trace": run.trace}),
                    ));
                }
            }
            for (a, b) in &edges {
                if !reach.contains(a) {
                    continue;
                }
                let pa = runs.iter().position(|r| *r == scn.modules[*a].name);
                let pb = runs.iter().position(|r| *r == scn.modules[*b].name);
                if let (Some(pa), Some(pb)) = (pa, pb)
                    && pb > pa
                    && rep.failure.is_none()
                {
                    rep.fail(f(
                        "module_ran_before_its_dependency",
                        format!("{} before {}", scn.modules[*a].name, scn.modules[*b].name),
                        json!({"schedule_index": si, "console": run.console, "trace": run.trace}),
                    ));
                }
            }
            if run.result != expected && rep.failure.is_none() {
                rep.fail(f(
                    "result_differs_from_closed_form",
                    run.result.clone(),
                    json!({"schedule_index": si, "expected": expected, "observed": run.result, "trace": run.trace}),
                ));
            }
            let v0 = expected_values(scn)[0];
            let ev = run.exports.iter().find(|(n, _)| n == "v").map(|(_, v)| v.clone());
            if ev != Some(v0.to_string()) && rep.failure.is_none() {
                rep.fail(f("export_value_differs_from_closed_form", format!("{:?}", ev), json!({"schedule_index": si, "expected": v0, "exports": run.exports})));
            }
            // the entry module's own value re-exports
            for e in &scn.modules[0].edges {
                if is_value_reexport(&e.kind) {
                    let name = format!("re_{}", scn.modules[e.to].name);
                    let want = expected_values(scn)[e.to].to_string();
                    let got = run.exports.iter().find(|(n, _)| *n == name).map(|(_, v)| v.clone());
                    if got.as_deref() != Some(want.as_str()) && rep.failure.is_none() {
                        rep.fail(f("reexported_value_differs_from_closed_form", format!("{}={:?}", name, got), json!({"schedule_index": si, "expected": want, "exports": run.exports})));
                    }
                }
            }
            match &first {
                None => first = Some((run.result.clone(), run.exports.clone())),
                Some((r0, e0)) => {
                    if (r0 != &run.result || e0 != &run.exports) && rep.failure.is_none() {
                        rep.fail(f(
                            "result_depends_on_supply_order",
                            run.result.clone(),
                            json!({"schedule_index": si, "first": r0, "this": run.result, "first_exports": e0, "these_exports": run.exports}),
                        ));
                    }
                }
            }
            if rep.failure.is_some() {
                break;
            }
        }
        let faults: u64 = ["fault_idle_round", "fault_early_delivery", "fault_duplicate_delivery", "partial_delivery_rounds"]
            .iter()
            .map(|k| rep.counters.get(*k).copied().unwrap_or(0))
            .sum();
        rep.nontrivial = rounds_total >= 2 || faults > 0;
        rep.trace_hash = hash_str(&format!("{}|{}", serde_json::to_string(&scn.modules).unwrap_or_default(), digest));
        rep
    }
}
