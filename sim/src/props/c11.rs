//! C11 — An interpreter stays usable and clean after failed or abandoned runs.
//!
//! The "crash" is the host's decision: a victim run completes, dies of an uncaught error at
//! arbitrary depth, is abandoned after s steps, is left suspended forever, or is left waiting
//! for an import. The "restart" is the next prepare() on the same interpreter. Oracle: observer
//! programs behave exactly as on a fresh interpreter (outcome, console, host traffic with order
//! ids renumbered), call_depth() is 0 before and after, and the H4 quiescence tuple after the
//! observers equals the fresh interpreter's.

use crate::framework::{Check, Failure, RunReport, Tier};
use crate::host::{Driver, GcSched, Host, Outcome, Run, new_interp};
use crate::proggen::{GenCfg, HoleVariant, Node};
use crate::progscn::{ProgCase, random_gc};
use crate::rng::{Rng, Tape};
use serde::{Deserialize, Serialize};
use serde_json::{Value, json};

#[derive(Clone, Debug, Serialize, Deserialize, PartialEq)]
pub enum End {
    /// run to the end (completes or dies of whatever it throws)
    RunOut,
    /// host stops stepping after this many advance() calls (resolved from Points)
    AbandonSteps,
    /// host stops at the n-th Suspended result, leaving the order unanswered
    AbandonSuspended(u32),
}

#[derive(Clone, Debug, Serialize, Deserialize, PartialEq)]
pub enum Points {
    /// n crash points spread by a seed over [0, T]
    Sample { n: u32, seed: u64 },
    /// every step index in [0, T] when T <= limit, else `fallback` sampled points
    All { limit: u32, fallback: u32, seed: u64 },
    Explicit(Vec<u64>),
}

/// Host-provided modules shared by victims and observers.
pub fn shared_modules() -> std::collections::BTreeMap<String, String> {
    let mut m = std::collections::BTreeMap::new();
    m.insert(
        "/shared/ok.ts".to_string(),
        "console.log(\"run ok\"); export const dv: number = 5; export function dfn(): number { return dv + 1; }".to_string(),
    );
    // what a path-less program asking for "./rel_dep.ts" gets on a fresh interpreter, and the
    // places a leaked base directory would make it resolve to instead
    m.insert("rel_dep.ts".to_string(), "console.log(\"run rel\"); export const rv: number = 42;".to_string());
    m.insert("/victims/rel_dep.ts".to_string(), "console.log(\"run WRONG rel\"); export const rv: number = -1;".to_string());
    m.insert("/rel_dep.ts".to_string(), "console.log(\"run WRONG root rel\"); export const rv: number = -2;".to_string());
    m.insert(
        "/shared/ok2.ts".to_string(),
        "import { dv } from \"./ok.ts\"; console.log(\"run ok2\"); export const dv2: number = dv * 2;".to_string(),
    );
    // victims import working modules from their own directory: a module a victim has loaded
    // successfully stays loaded (module registry = deliberate global effect), so observers use
    // /shared/ok*.ts which no victim touches; the failing module is shared on purpose
    m.insert(
        "/victims/ok.ts".to_string(),
        "console.log(\"run vok\"); export const dv: number = 7;".to_string(),
    );
    // what the host would supply for the paths victims run under, if somebody imported them
    m.insert("/victims/v.ts".to_string(), "console.log(\"run fresh v\"); export const dv: number = 9;".to_string());
    m.insert("/victims/u.ts".to_string(), "console.log(\"run fresh u\"); export const dv: number = 8;".to_string());
    m.insert("/victims/c.ts".to_string(), "console.log(\"run fresh c\"); export const dv: number = 7;".to_string());
    m.insert(
        "/shared/bad.ts".to_string(),
        "console.log(\"run bad\"); export const a: number = 1; function boom(): any { { let inner: any = 1; throw new Error(\"dep died \" + inner); } } boom(); export const b: number = 2;".to_string(),
    );
    m
}

const IMPORT_OBSERVER_OK: &str = r#"import { dv, dfn } from "/shared/ok.ts";
import { dv2 } from "/shared/ok2.ts";
[typeof vn0, typeof __log, typeof vmain, typeof inner, dv, dfn(), dv2].join(",")
"#;

const IMPORT_OBSERVER_REL: &str = r#"import { rv } from "./rel_dep.ts";
export const seen: number = rv;
[typeof vn0, typeof inner, rv].join(",")
"#;

/// Imports the paths the victims ran under. Only compared when no victim completed under its path
/// (a module that completed stays loaded: a deliberate effect on the module registry).
const IMPORT_OBSERVER_DEAD: &str = r#"import * as dv from "/victims/v.ts";
import * as du from "/victims/u.ts";
import * as dc from "/victims/c.ts";
[Object.keys(dv).join("+"), Object.keys(du).join("+"), Object.keys(dc).join("+"), dv.dv, du.dv, dc.dv].join(",")
"#;

const IMPORT_OBSERVER_BAD: &str = r#"import { a, b } from "/shared/bad.ts";
[typeof vn0, typeof inner, a, b].join(",")
"#;

#[derive(Clone, Debug, Serialize, Deserialize)]
pub struct Victim {
    /// host-provided module the victim imports (path in the shared store), if any
    #[serde(default)]
    pub import: Option<String>,
    /// the host never delivers the import: the victim is abandoned at NeedImports
    #[serde(default)]
    pub withhold: bool,
    pub case: ProgCase,
    /// wrap the body in a block (script mode) or run it as a module with this path
    pub module_path: Option<String>,
    pub end: End,
    pub tape: Tape,
    pub gc: GcSched,
    /// start the victim with eval() instead of prepare() (module-mode victims)
    #[serde(default)]
    pub eval: bool,
}

#[derive(Clone, Debug, Serialize, Deserialize)]
pub struct Scn {
    pub victims: Vec<Victim>,
    pub points: Points,
    pub observer: ProgCase,
    pub fuel: u64,
    /// the importing observers run first (right after the victims) instead of last
    #[serde(default)]
    pub import_observers_first: bool,
    #[serde(default)]
    pub import_observers_as_modules: bool,
    #[serde(default)]
    pub import_observers_eval: bool,
    /// a slow host: answers to the orders the victims left unanswered arrive during the battery
    #[serde(default)]
    pub late_answers: bool,
    /// the first thing run after the victims is Interpreter::eval_bytecode (third entry point)
    #[serde(default)]
    pub probe_eval_bytecode_first: bool,
    /// the battery is started with eval() instead of prepare()
    #[serde(default)]
    pub battery_eval: bool,
}

pub struct C11;

/// Script-mode, self-contained rendering: imports stay on top, everything else goes in a block.
pub fn block_wrapped_source(case: &ProgCase) -> String {
    let mut s = String::new();
    let kids = &case.tree.kids;
    if let Some(first) = kids.first() {
        // the hole prelude: keep import lines outside, the rest (const __h = ...) inside
        let mut inside = String::new();
        for line in first.pre.split('\n') {
            if line.trim_start().starts_with("import ") {
                s.push_str(line);
                s.push('\n');
            } else {
                inside.push_str(line);
                inside.push('\n');
            }
        }
        s.push_str("{\n");
        s.push_str(&inside);
    }
    for k in kids.iter().skip(1) {
        k.render(&mut s, 1);
    }
    s.push_str("}\n");
    s
}

const BATTERY: &str = r#"import { order } from "tsrun:host";
import { probe as __bprobe, kinds as __bkinds } from "lib:util";
const __names = [typeof vn0, typeof va0, typeof vo0, typeof vs0, typeof vmain, typeof __log, typeof __show, typeof vr, typeof vK, typeof vB, typeof un0, typeof umain, typeof uK].join(",");
let vn0: any = 1; const va0: any = [2]; let vo0: any = { z: 3 }; class vK { q(): any { return 4; } } function vmain(): any { return 5; }
let un0: any = 6; class uK {} function umain(): any { return 7; }
const __b: string[] = [];
function mk(n: number): any { let c = n; return () => { c += 1; return c; }; }
const inc = mk(10); inc(); __b.push("closure:" + inc());
function tf(): any { try { return "t"; } finally { __b.push("fin"); } }
__b.push(tf());
function* g3(): any { let i = 0; try { while (i < 3) { yield i++; } } finally { __b.push("gfin"); } }
__b.push([...g3()].join(""));
for (const x of g3()) { if (x === 1) break; }
function thrower(d: number): any { if (d === 0) { throw new TypeError("deep"); } return thrower(d - 1); }
try { thrower(3); } catch (e: any) { __b.push("caught:" + e.name + ":" + e.message); }
const r1: any = await order({ k: 900 });
__b.push("order:" + r1);
async function af(): Promise<any> { const v: any = await order({ k: 901 }); return v + 1; }
__b.push("af:" + (await af()));
{ let blockv: any = 1; __b.push("block:" + blockv); }
__b.push("lib:" + __bprobe() + __bkinds(undefined) + __bkinds([1]));
__names + "|" + __b.join(";") + "|" + new vK().q() + vmain()
"#;

fn battery_spec(fuel: u64) -> crate::host::RunSpec {
    let mut answers = std::collections::BTreeMap::new();
    answers.insert("900".to_string(), crate::host::Answer::Value(json!(41)));
    answers.insert("901".to_string(), crate::host::Answer::DeferValue(json!(50)));
    crate::host::RunSpec {
        source: BATTERY.to_string(),
        path: None,
        modules: Default::default(),
        answers,
        driver: Driver::Step,
        gc: GcSched::off(),
        tape: Tape::from_vec(vec![]),
        fuel,
        clock_start: 0,
        random_seed: 1,
        withhold_imports: false,
        linked_promises: false,
        host_activity_pm: 0,
        internal_sources: Default::default(), stale_answer_ids: Vec::new(), stub_then_real: false,
    }
}

/// Renumber order ids by first appearance so that a continuing id counter is not a difference.
fn normalise_traffic(t: &[String]) -> Vec<String> {
    let mut map: std::collections::BTreeMap<String, usize> = Default::default();
    let mut out = Vec::new();
    for line in t {
        let mut res = String::new();
        let bytes: Vec<char> = line.chars().collect();
        let mut i = 0;
        while i < bytes.len() {
            // patterns "[o<digits>" "[c<digits>" ":o<digits>"
            if (bytes[i] == 'o' || bytes[i] == 'c')
                && i > 0
                && (bytes[i - 1] == '[' || bytes[i - 1] == ':')
                && i + 1 < bytes.len()
                && bytes[i + 1].is_ascii_digit()
            {
                let mut j = i + 1;
                let mut num = String::new();
                while j < bytes.len() && bytes[j].is_ascii_digit() {
                    num.push(bytes[j]);
                    j += 1;
                }
                let n = map.len();
                let id = *map.entry(num).or_insert(n + 1);
                res.push(bytes[i]);
                res.push_str(&format!("#{}", id));
                i = j;
            } else {
                res.push(bytes[i]);
                i += 1;
            }
        }
        out.push(res);
    }
    out
}

/// What the simplest entry point (Interpreter::eval_bytecode) sees right after the victims.
const NAMES_PROBE: &str = "[typeof vn0, typeof va0, typeof vo0, typeof vs0, typeof vmain, typeof __log, typeof __show, typeof vr, typeof vK, typeof vB, typeof un0, typeof umain, typeof uK, typeof inner].join(\",\")";

const IMPORT_NAMES_PROBE: &str = "[typeof __h, typeof order, typeof __hm, typeof __hr, typeof __probe, typeof __kinds, typeof __util, typeof __mk, typeof imp_a, typeof __cx].join(\",\")";

struct ObsResult {
    /// result of NAMES_PROBE through eval_bytecode, run before any other observer (when enabled)
    bytecode_probe: String,
    battery: Outcome,
    observer: Outcome,
    import_ok: Outcome,
    import_bad: Outcome,
    import_rel: Outcome,
    import_dead: Outcome,
    depth_before: usize,
    depth_after: usize,
    quiescence: String,
}

pub fn run_to_end(h: &mut Host, spec: crate::host::RunSpec) -> Outcome {
    tsrun::verif::set_fuel(Some(spec.fuel));
    crate::host::install_gc(&spec.gc, 0);
    let mut run = Run::new(spec);
    while run.advance(h) {}
    run.finalize(h);
    tsrun::verif::set_gc_decider(None);
    run.out
}

fn observers(h: &mut Host, scn: &Scn, late: &[u64]) -> ObsResult {
    let depth_before = h.interp.call_depth();
    let bytecode_probe = if scn.probe_eval_bytecode_first {
        tsrun::verif::set_fuel(Some(scn.fuel));
        let mut out = match h.interp.eval_bytecode(NAMES_PROBE) {
            Ok(v) => crate::host::show_value(&v),
            Err(e) => format!("error:{:?}", crate::host::err_kind_msg(&e)),
        };
        // a module's imports are bindings of that module: after module-mode victims only, none of
        // the imported names may be visible to a later program (script-mode imports bind globally)
        if scn.victims.iter().all(|v| v.module_path.is_some()) {
            out.push('|');
            out.push_str(&match h.interp.eval_bytecode(IMPORT_NAMES_PROBE) {
                Ok(v) => crate::host::show_value(&v),
                Err(e) => format!("error:{:?}", crate::host::err_kind_msg(&e)),
            });
        }
        out
    } else {
        String::new()
    };
    // observers that have to wait for host-provided modules (script or module flavour, eval or step)
    let importing = |h: &mut Host, src: &str, path: &str| -> Outcome {
        let mut s = battery_spec(scn.fuel);
        s.source = src.to_string();
        s.modules = shared_modules();
        s.path = if scn.import_observers_as_modules { Some(path.to_string()) } else { None };
        s.driver = if scn.import_observers_eval { Driver::Eval } else { Driver::Step };
        run_to_end(h, s)
    };
    let mut import_ok = None;
    let mut import_bad = None;
    // a path-less script with a relative import: resolution must not depend on earlier runs
    let rel = |h: &mut Host| -> Outcome {
        let mut s = battery_spec(scn.fuel);
        s.source = IMPORT_OBSERVER_REL.to_string();
        s.modules = shared_modules();
        s.path = None;
        run_to_end(h, s)
    };
    let mut import_rel = None;
    if scn.import_observers_first {
        import_rel = Some(rel(h));
        import_ok = Some(importing(h, IMPORT_OBSERVER_OK, "/obs/imp_ok.ts"));
        import_bad = Some(importing(h, IMPORT_OBSERVER_BAD, "/obs/imp_bad.ts"));
    }
    // answers to orders of dead runs arrive while the battery is waiting for its own first order
    let mut bspec = battery_spec(scn.fuel);
    if scn.late_answers {
        // (an id nobody ever issued is always part of the delivery, so that the fresh reference
        // and the reused interpreter see the same host behaviour: late answers, then one step)
        bspec.stale_answer_ids = late.to_vec();
        bspec.stale_answer_ids.push(9_000_001);
    }
    if scn.battery_eval {
        bspec.driver = Driver::Eval;
    }
    let battery = run_to_end(h, bspec);
    // right after the (suspending, path-less) battery: import the paths the victims ran under
    let import_dead = {
        let mut s = battery_spec(scn.fuel);
        s.source = IMPORT_OBSERVER_DEAD.to_string();
        s.modules = shared_modules();
        s.path = Some("/obs/imp_dead.ts".to_string());
        run_to_end(h, s)
    };
    let mut ospec = scn.observer.spec(Driver::Step, GcSched::off(), Tape::from_vec(vec![]), scn.fuel);
    ospec.path = Some("/obs/observer.ts".into());
    let observer = run_to_end(h, ospec);
    if !scn.import_observers_first {
        import_rel = Some(rel(h));
        import_bad = Some(importing(h, IMPORT_OBSERVER_BAD, "/obs/imp_bad.ts"));
        import_ok = Some(importing(h, IMPORT_OBSERVER_OK, "/obs/imp_ok.ts"));
    }
    let depth_after = h.interp.call_depth();
    h.interp.collect();
    let q = h.interp.verif_quiescence();
    ObsResult {
        bytecode_probe,
        battery,
        observer,
        import_ok: import_ok.unwrap_or_default(),
        import_bad: import_bad.unwrap_or_default(),
        import_rel: import_rel.unwrap_or_default(),
        import_dead,
        depth_before,
        depth_after,
        quiescence: format!("{:?}", q),
    }
}

fn victim_spec(v: &Victim, fuel: u64) -> crate::host::RunSpec {
    let mut case = v.case.clone();
    if let Some(imp) = &v.import
        && let Some(first) = case.tree.kids.first_mut()
    {
        let what = if imp.ends_with("bad.ts") { "a as imp_a" } else { "dv as imp_a" };
        first.pre = format!("import {{ {} }} from \"{}\";\n{}", what, imp, first.pre);
    }
    let mut spec = case.spec(if v.eval { Driver::Eval } else { Driver::Step }, v.gc.clone(), v.tape.clone(), fuel);
    match &v.module_path {
        Some(p) => spec.path = Some(p.clone()),
        None => {
            spec.source = block_wrapped_source(&case);
            spec.path = None;
        }
    }
    spec.modules = shared_modules();
    spec.withhold_imports = v.withhold;
    spec
}

/// Run one victim on `h`; abandon per its End. Returns (advance calls made, how it ended).
fn run_victim(h: &mut Host, v: &Victim, fuel: u64, abandon_after: Option<u64>) -> (u64, String, u64, Vec<u64>) {
    let spec = victim_spec(v, fuel);
    tsrun::verif::set_fuel(Some(spec.fuel));
    crate::host::install_gc(&spec.gc, 0);
    let mut run = Run::new(spec);
    let mut n = 0u64;
    let mut how = String::from("ran-out");
    loop {
        if let Some(limit) = abandon_after
            && n >= limit
        {
            how = format!("abandoned-at-step-{}", n);
            break;
        }
        if let End::AbandonSuspended(k) = v.end
            && run.out.suspensions >= k as u64
            && run.out.suspensions > 0
        {
            how = "abandoned-while-suspended".into();
            break;
        }
        if !run.advance(h) {
            how = format!("ended:{}", run.out.result.chars().take(40).collect::<String>());
            break;
        }
        n += 1;
    }
    let depth = h.interp.call_depth() as u64;
    tsrun::verif::set_gc_decider(None);
    let left = run.unanswered_ids();
    // the Run (and with it the host's deferred promises, tape, …) is dropped here: the host walks away
    (n, how, depth, left)
}

impl Check for C11 {
    type Scn = Scn;
    fn id(&self) -> &'static str {
        "C11"
    }
    fn level(&self) -> &'static str {
        "fault_enumeration"
    }
    fn rule(&self) -> String {
        "histories on one interpreter: 1-2 self-contained victim programs (progGen, block-wrapped script or module; with host holes, try/finally, generators, async helpers, planted uncaught throws) each ending by running out, dying of an uncaught error, being abandoned after s steps, or being left suspended on an unanswered order; then a fixed observer battery (typeof of victim names, re-declaration, closures, try/finally, generators, thrown error, order round trips) and a generated observer module. Crash points: quick = sampled step indices, thorough = EVERY step index in [0,T] for victims with T<=400 (larger ones sampled). Oracle: observer outcomes/console/traffic (order ids renumbered) equal those on a fresh interpreter; call_depth 0 before/after; H4 quiescence tuple equal. non-trivial = the victim did not simply complete (error, abandonment or suspension); distinct = distinct (victim outcome digest, crash point, how it ended). Also: author-written corpus snippets as victims; victims and battery import the internal source module lib:util (probe() reads free identifiers); module-mode victims started with eval(); a slow host delivers answers to orders of dead runs while the battery waits for its first order; Interpreter::eval_bytecode as first observer (names of the dead run and, after module-mode victims, their imported names must be undefined); an observer importing the paths the dead runs had".into()
    }
    fn components(&self) -> Value {
        json!({"real": ["Interpreter prepare/step on a reused instance", "BytecodeVM", "scope/env/call-stack bookkeeping", "order ledger", "wait graph", "module environment handling", "gc.rs"],
               "stub": ["host that walks away (abandon)", "providers", "collector schedule"],
               "not_run": ["ffi", "tsrun binary"]})
    }
    fn assumptions(&self) -> Vec<String> {
        vec![
            "victims are generated without deliberate global effects (block- or module-scoped, unique names); the import binding of tsrun:host in script mode is made by the interpreter and is re-imported by the observers".into(),
            "a continuing order-id counter is not a leak: ids are renumbered by first appearance before traffic is compared".into(),
        ]
    }

    fn generate(&self, rng: &mut Rng, _idx: usize, tier: Tier) -> Scn {
        let nv = 1 + rng.below(2);
        let mut victims = Vec::new();
        for vi in 0..nv {
            let holes = if rng.chance(0.6) { 1 + rng.below(3) } else { 0 };
            let mut cfg = GenCfg::swarm(rng, holes);
            cfg.size = 4 + rng.below(25);
            // victims must not consume the host's random/clock streams or bump console counters:
            // those are effects on state the host (or the console) owns, not leaks of a dead run
            cfg.f_timeish = false;
            let variant = if holes == 0 {
                HoleVariant::Sync
            } else if rng.chance(0.5) {
                HoleVariant::Order
            } else {
                HoleVariant::OrderDirect
            };
            let prefix = if vi == 0 { "v" } else { "u" };
            let mut case = ProgCase::generate(rng, cfg, variant, prefix);
            // planted uncaught throw somewhere in the tree (may or may not be reached)
            let mode = rng.below(10);
            if mode < 4 {
                plant_crash(&mut case.tree, rng);
                // remove the top-level catch so the error is uncaught
                strip_top_catch(&mut case.tree, prefix);
            }
            let end = if vi + 1 == nv {
                match mode {
                    0..=3 => End::RunOut,
                    4..=6 => End::AbandonSteps,
                    7..=8 if holes > 0 => End::AbandonSuspended(1 + rng.below(2) as u32),
                    _ => End::AbandonSteps,
                }
            } else {
                match mode {
                    0..=5 => End::RunOut,
                    6..=7 if holes > 0 => End::AbandonSuspended(1),
                    _ => End::RunOut,
                }
            };
            // tails that leave something in the order ledger without parking the run in order():
            // an order issued inside a native callback, an explicit cancel as the last action
            if holes > 0 {
                match rng.below(10) {
                    0 | 1 => append_to_main(&mut case.tree, prefix, "try { [1, 2].forEach((x: any) => { __h(50 + x); }); } catch (e: any) { __log.push(\"ocb:\" + String(e && e.message !== undefined ? e.message : e)); }"),
                    2 => {
                        if let Some(first) = case.tree.kids.first_mut() {
                            first.pre = format!("import {{ __cancelOrder__ as __cx }} from \"tsrun:host\";\n{}", first.pre);
                        }
                        append_to_main(&mut case.tree, prefix, "__cx(1);");
                    }
                    _ => {}
                }
            }
            let import = match rng.below(20) {
                0..=2 => Some("/victims/ok.ts".to_string()),
                3..=6 => Some("/shared/bad.ts".to_string()),
                _ => None,
            };
            let withhold = import.is_some() && rng.chance(0.25);
            // KF-C11-1 (open): a module delivered to a run that is then abandoned before the
            // module body ran is executed by the next run that waits for any import. Importing
            // victims therefore run out (or never get their module); the witness covers the rest.
            let end = if import.is_some() { End::RunOut } else { end };
            let module_path = if rng.chance(0.4) { Some(format!("/victims/{}.ts", prefix)) } else { None };
            let eval = module_path.is_some() && rng.chance(0.35);
            victims.push(Victim {
                import,
                withhold,
                case,
                module_path,
                end,
                tape: Tape::random(rng, 12),
                gc: if rng.chance(0.6) { GcSched::off() } else { random_gc(rng) },
                eval,
            });
        }
        let oh = 1 + rng.below(2);
        let mut ocfg = GenCfg::swarm(rng, oh);
        ocfg.size = 4 + rng.below(12);
        // KF-C11-2 quarantine: symbol-keyed properties hash by a symbol id that keeps counting
        // across runs, which shifts the hash-table enumeration order of objects with > 2 keys
        ocfg.f_symbol = false;
        let observer = ProgCase::generate(rng, ocfg, HoleVariant::Order, "w");
        let points = match tier {
            Tier::Quick => Points::Sample { n: 12, seed: rng.next_u64() },
            Tier::Thorough => Points::All { limit: 400, fallback: 60, seed: rng.next_u64() },
        };
        Scn {
            victims,
            points,
            observer,
            fuel: 400_000,
            import_observers_first: rng.chance(0.5),
            import_observers_as_modules: rng.chance(0.5),
            import_observers_eval: rng.chance(0.3),
            late_answers: rng.chance(0.5),
            probe_eval_bytecode_first: rng.chance(0.4),
            battery_eval: rng.chance(0.4),
        }
    }

    fn generate_stream(&self, stream: &str, rng: &mut Rng, idx: usize, tier: Tier) -> Scn {
        if stream != "corpus" {
            return self.generate(rng, idx, tier);
        }
        // victims are author-written snippets (no deliberate global effects), abandoned at arbitrary
        // steps or run out; observers as in the generated stream
        let mut scn = self.generate(rng, idx, tier);
        let c = crate::corpus::corpus();
        let list: Vec<&crate::corpus::Entry> = c.snippets.iter().filter(|e| e.self_contained()).collect();
        let e = list[idx % list.len().max(1)];
        let end = if rng.chance(0.3) { End::RunOut } else { End::AbandonSteps };
        scn.victims = vec![Victim {
            import: None,
            withhold: false,
            case: e.to_case(),
            module_path: if rng.chance(0.5) { Some("/victims/c.ts".into()) } else { None },
            end,
            tape: Tape::random(rng, 8),
            gc: if rng.chance(0.6) { GcSched::off() } else { random_gc(rng) },
            eval: false,
        }];
        scn
    }

    fn shrink(&self, scn: &Scn) -> Vec<Scn> {
        let mut out = Vec::new();
        if scn.victims.len() > 1 {
            for i in 0..scn.victims.len() {
                let mut v = scn.victims.clone();
                v.remove(i);
                out.push(Scn { victims: v, ..scn.clone() });
            }
        }
        if let Points::Explicit(p) = &scn.points
            && p.len() > 1
        {
            for x in p {
                out.push(Scn { points: Points::Explicit(vec![*x]), ..scn.clone() });
            }
        }
        for (i, v) in scn.victims.iter().enumerate() {
            if !v.gc.is_off() {
                let mut vs = scn.victims.clone();
                vs[i].gc = GcSched::off();
                out.push(Scn { victims: vs, ..scn.clone() });
            }
            if !v.tape.v.is_empty() {
                let mut vs = scn.victims.clone();
                vs[i].tape = Tape::from_vec(vec![]);
                out.push(Scn { victims: vs, ..scn.clone() });
            }
            for c in v.case.shrink_tree() {
                let mut vs = scn.victims.clone();
                vs[i].case = c;
                out.push(Scn { victims: vs, ..scn.clone() });
            }
        }
        for c in scn.observer.shrink_tree() {
            out.push(Scn { observer: c, ..scn.clone() });
        }
        out
    }

    fn execute(&self, scn: &Scn) -> RunReport {
        let mut rep = RunReport::default();
        tsrun::verif::reset();
        // reference: observers on a fresh interpreter
        let fresh = {
            let mut h = new_interp(0, 1);
            observers(&mut h, scn, &[])
        };
        rep.sim_instructions += tsrun::verif::instructions();
        // dry run of the last victim to learn T (advance calls until it ends), on a history prefix
        let last = scn.victims.len() - 1;
        let needs_points = scn.victims[last].end == End::AbandonSteps;
        let t_total = if needs_points {
            let mut h = new_interp(0, 1);
            for v in &scn.victims[..last] {
                run_victim(&mut h, v, scn.fuel, None);
            }
            let mut v = scn.victims[last].clone();
            v.end = End::RunOut;
            run_victim(&mut h, &v, scn.fuel, None).0
        } else {
            0
        };
        let points: Vec<Option<u64>> = if !needs_points {
            vec![None]
        } else {
            match &scn.points {
                Points::Explicit(p) => p.iter().map(|x| Some(*x)).collect(),
                Points::Sample { n, seed } => {
                    let mut r = Rng::new(*seed);
                    let mut ps: Vec<u64> = (0..*n).map(|_| r.range(0, t_total as i64) as u64).collect();
                    ps.sort();
                    ps.dedup();
                    ps.into_iter().map(Some).collect()
                }
                Points::All { limit, fallback, seed } => {
                    if t_total <= *limit as u64 {
                        rep.bump("victims_with_every_crash_point_enumerated", 1);
                        (0..=t_total).map(Some).collect()
                    } else {
                        let mut r = Rng::new(*seed);
                        let mut ps: Vec<u64> = (0..*fallback).map(|_| r.range(0, t_total as i64) as u64).collect();
                        ps.sort();
                        ps.dedup();
                        ps.into_iter().map(Some).collect()
                    }
                }
            }
        };
        let mut digest = String::new();
        let mut nontrivial = false;
        for p in points {
            tsrun::verif::reset();
            let mut h = new_interp(0, 1);
            let mut hows = Vec::new();
            let mut late_ids: Vec<u64> = Vec::new();
            for (i, v) in scn.victims.iter().enumerate() {
                let ab = if i == last && v.end == End::AbandonSteps { p } else { None };
                let (n, how, depth, left) = run_victim(&mut h, v, scn.fuel, ab);
                late_ids.extend(left);
                if !how.starts_with("ended:complete") {
                    nontrivial = true;
                }
                if how.starts_with("abandoned-at-step") {
                    rep.bump("crash_abandoned_at_step", 1);
                    if depth > 0 {
                        rep.bump("probe_abandoned_inside_call", 1);
                    }
                } else if how.starts_with("abandoned-while-suspended") {
                    rep.bump("crash_abandoned_while_suspended", 1);
                } else if how.starts_with("ended:error") {
                    rep.bump("crash_uncaught_error", 1);
                } else if how.starts_with("ended:complete") {
                    rep.bump("victim_completed", 1);
                } else {
                    rep.bump("victim_other_end", 1);
                }
                hows.push(format!("{}@{}", how, n));
            }
            if scn.late_answers && !late_ids.is_empty() {
                rep.bump("fault_late_answers_to_orders_of_dead_runs", late_ids.len() as u64);
            }
            let reused = observers(&mut h, scn, &late_ids);
            rep.sim_instructions += tsrun::verif::instructions();
            rep.bump("histories", 1);
            digest.push_str(&format!("{:?}|{:?};", p, hows));
            if rep.failure.is_some() {
                continue;
            }
            let mk = |clause: &str, what: &str, exp: String, obs: String| {
                Failure::new(
                    clause,
                    obs.chars().take(200).collect::<String>(),
                    json!({"crash_point": p, "victims_ended": hows, "what": what, "expected_fresh": exp, "observed_reused": obs}),
                )
            };
            if reused.depth_before != 0 {
                // state of a dead run may sit there until the next prepare(); only leaks INTO a run count.
                rep.bump("note_call_depth_nonzero_before_next_prepare", 1);
            }
            if fresh.bytecode_probe != reused.bytecode_probe {
                rep.fail(mk("eval_bytecode_probe_differs_from_fresh", "Interpreter::eval_bytecode right after the victims", fresh.bytecode_probe.clone(), reused.bytecode_probe.clone()));
            } else if fresh.battery.result != reused.battery.result || fresh.battery.console != reused.battery.console {
                rep.fail(mk("battery_observer_differs_from_fresh", "battery", fresh.battery.result.clone(), reused.battery.result.clone()));
            } else if normalise_traffic(&fresh.battery.traffic) != normalise_traffic(&reused.battery.traffic) {
                rep.fail(mk(
                    "battery_traffic_differs_from_fresh",
                    "battery traffic",
                    format!("{:?}", normalise_traffic(&fresh.battery.traffic)),
                    format!("{:?}", normalise_traffic(&reused.battery.traffic)),
                ));
            } else if fresh.observer.result != reused.observer.result || fresh.observer.console != reused.observer.console {
                rep.fail(mk("generated_observer_differs_from_fresh", "observer", fresh.observer.result.clone(), reused.observer.result.clone()));
            } else if normalise_traffic(&fresh.observer.traffic) != normalise_traffic(&reused.observer.traffic) {
                rep.fail(mk(
                    "observer_traffic_differs_from_fresh",
                    "observer traffic",
                    format!("{:?}", normalise_traffic(&fresh.observer.traffic)),
                    format!("{:?}", normalise_traffic(&reused.observer.traffic)),
                ));
            } else if fresh.import_ok.result != reused.import_ok.result
                || fresh.import_ok.console != reused.import_ok.console
                || normalise_traffic(&fresh.import_ok.traffic) != normalise_traffic(&reused.import_ok.traffic)
            {
                rep.fail(mk(
                    "importing_observer_differs_from_fresh",
                    "observer importing /shared/ok.ts",
                    format!("{} {:?} {:?}", fresh.import_ok.result, fresh.import_ok.console, fresh.import_ok.traffic),
                    format!("{} {:?} {:?}", reused.import_ok.result, reused.import_ok.console, reused.import_ok.traffic),
                ));
            } else if fresh.import_bad.result != reused.import_bad.result
                || fresh.import_bad.console != reused.import_bad.console
                || normalise_traffic(&fresh.import_bad.traffic) != normalise_traffic(&reused.import_bad.traffic)
            {
                rep.fail(mk(
                    "observer_importing_failing_module_differs_from_fresh",
                    "observer importing /shared/bad.ts",
                    format!("{} {:?} {:?}", fresh.import_bad.result, fresh.import_bad.console, fresh.import_bad.traffic),
                    format!("{} {:?} {:?}", reused.import_bad.result, reused.import_bad.console, reused.import_bad.traffic),
                ));
            } else if fresh.import_rel.result != reused.import_rel.result
                || fresh.import_rel.console != reused.import_rel.console
                || fresh.import_rel.traffic != reused.import_rel.traffic
                || fresh.import_rel.exports != reused.import_rel.exports
            {
                rep.fail(mk(
                    "pathless_observer_with_relative_import_differs_from_fresh",
                    "path-less observer importing ./rel_dep.ts",
                    format!("{} {:?} {:?} {:?}", fresh.import_rel.result, fresh.import_rel.console, fresh.import_rel.traffic, fresh.import_rel.exports),
                    format!("{} {:?} {:?} {:?}", reused.import_rel.result, reused.import_rel.console, reused.import_rel.traffic, reused.import_rel.exports),
                ));
            } else if !hows.iter().zip(scn.victims.iter()).any(|(how, v)| v.module_path.is_some() && how.starts_with("ended:complete"))
                && (fresh.import_dead.result != reused.import_dead.result || fresh.import_dead.console != reused.import_dead.console || fresh.import_dead.traffic != reused.import_dead.traffic)
            {
                rep.fail(mk(
                    "observer_importing_the_path_of_a_dead_run_differs_from_fresh",
                    "observer importing the module paths the dead runs had",
                    format!("{} {:?} {:?}", fresh.import_dead.result, fresh.import_dead.console, fresh.import_dead.traffic),
                    format!("{} {:?} {:?}", reused.import_dead.result, reused.import_dead.console, reused.import_dead.traffic),
                ));
            } else if fresh.battery.exports != reused.battery.exports || fresh.import_ok.exports != reused.import_ok.exports {
                rep.fail(mk(
                    "exports_reported_after_observer_differ_from_fresh",
                    "get_export_names/get_export after a path-less or importing observer",
                    format!("{:?} {:?}", fresh.battery.exports, fresh.import_ok.exports),
                    format!("{:?} {:?}", reused.battery.exports, reused.import_ok.exports),
                ));
            } else if fresh.observer.exports != reused.observer.exports {
                rep.fail(mk("observer_exports_differ_from_fresh", "exports", format!("{:?}", fresh.observer.exports), format!("{:?}", reused.observer.exports)));
            } else if reused.depth_after != fresh.depth_after {
                rep.fail(mk("call_depth_after_observers", "call depth", fresh.depth_after.to_string(), reused.depth_after.to_string()));
            } else if reused.quiescence != fresh.quiescence {
                rep.fail(mk("quiescence_after_observers", "H4 tuple", fresh.quiescence.clone(), reused.quiescence.clone()));
            }
            if rep.failure.is_some()
                && let Some(pp) = p
            {
                // make the failing crash point explicit for replay/minimisation
                if let Some(f) = rep.failure.as_mut() {
                    f.detail["explicit_point"] = json!(pp);
                }
            }
        }
        rep.nontrivial = nontrivial;
        rep.trace_hash = crate::rng::hash_str(&format!("{}|{}", fresh.observer.digest(), digest));
        rep
    }
}

pub fn plant_crash(tree: &mut Node, rng: &mut Rng) {
    // insert a throw after a random statement inside the main function (any nesting depth)
    fn collect<'a>(n: &'a mut Node, out: &mut Vec<*mut Node>) {
        for k in n.kids.iter_mut() {
            if !k.kids.is_empty() && !k.pre.starts_with("class ") {
                out.push(k as *mut Node);
                collect(k, out);
            }
        }
    }
    let mut blocks: Vec<*mut Node> = Vec::new();
    collect(tree, &mut blocks);
    if blocks.is_empty() {
        return;
    }
    let b = blocks[rng.below(blocks.len())];
    // Safety: pointers come from a single mutable traversal of `tree`, used once, no aliasing kept.
    let b: &mut Node = unsafe { &mut *b };
    let pos = rng.below(b.kids.len() + 1);
    b.kids.insert(pos, Node::leaf("throw new RangeError(\"planted crash\");"));
}

pub fn strip_top_catch(tree: &mut Node, prefix: &str) {
    let needle = format!("let {}r: any; try {{", prefix);
    for k in tree.kids.iter_mut() {
        if k.pre.starts_with(&needle) {
            k.pre = format!("let {p}r: any; {p}r = await {p}main();", p = prefix);
        }
    }
}


/// Insert a statement just before the final `return` of the generated main function.
fn append_to_main(tree: &mut Node, prefix: &str, stmt: &str) {
    let needle = format!("async function {}main", prefix);
    for k in tree.kids.iter_mut() {
        if k.pre.starts_with(&needle) {
            let at = k.kids.len().saturating_sub(1);
            k.kids.insert(at, Node::leaf(stmt));
        }
    }
}
