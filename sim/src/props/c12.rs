//! C12 — Execution is deterministic and interpreter instances are isolated.
//!
//! K = 2..4 real interpreters; everything an instance can observe of the outside world (clock,
//! randomness, console, host answers) is simulated per instance. The simulator decides which
//! instance performs its next action (step, host answer, create, drop, forced collect): in one
//! thread, after prior lifetimes, and with one OS thread per instance released one action at a
//! time. Oracle: each instance's full trace equals its solo trace; solo trace hashes agree across
//! fresh processes (ASLR, shifted heap).

use crate::framework::{Check, Failure, RunReport, Tier};
use crate::host::{Driver, GcSched, Host, Outcome, Run, RunSpec, new_interp, new_interp_flavoured};
use crate::proggen::{GenCfg, HoleVariant, Node};
use crate::progscn::ProgCase;
use crate::rng::{Rng, Tape, hash_str};
use serde::{Deserialize, Serialize};
use serde_json::{Value, json};
use std::sync::mpsc;

#[derive(Clone, Debug, Serialize, Deserialize, PartialEq)]
pub enum Mode {
    Interleave,
    PriorLifetimes,
    Threads,
}

#[derive(Clone, Debug, Serialize, Deserialize)]
pub struct Inst {
    pub case: ProgCase,
    pub tape: Tape,
    pub gc: GcSched,
    pub driver: Driver,
    pub clock_start: i64,
    pub random_seed: u64,
    /// a second program run on the same interpreter after the first one finished (new code is
    /// compiled while other instances have come and gone)
    #[serde(default)]
    pub followup: Option<ProgCase>,
    /// which simulated RegExp engine this instance's host installed (0 = the default one)
    #[serde(default)]
    pub regexp_flavour: u8,
}

#[derive(Clone, Debug, Serialize, Deserialize)]
pub struct Scn {
    pub instances: Vec<Inst>,
    pub mode: Mode,
    pub sched: Tape,
    pub fuel: u64,
    /// process-restart stratum: compare the solo trace hash of worker seed index `index` across
    /// `procs` fresh processes (instances/mode/sched are unused then)
    #[serde(default)]
    pub process_restart: Option<ProcessRestart>,
}

#[derive(Clone, Debug, Serialize, Deserialize)]
pub struct ProcessRestart {
    pub seed: u64,
    pub index: u64,
    pub procs: u32,
}

pub struct C12;

pub fn full_trace(o: &Outcome) -> String {
    format!(
        "{}\n#console\n{}\n#traffic\n{}\n#steps {}\n#exports {:?}\n#export-order {:?}",
        o.result,
        o.console.join("\n"),
        o.traffic.join("\n"),
        o.steps,
        o.exports,
        o.export_order
    )
}

fn spec_of(i: &Inst, fuel: u64) -> RunSpec {
    let mut s = i.case.spec(i.driver, i.gc.clone(), i.tape.clone(), fuel);
    s.clock_start = i.clock_start;
    s.random_seed = i.random_seed;
    s
}

fn specs_of(i: &Inst, fuel: u64) -> Vec<RunSpec> {
    let mut v = vec![spec_of(i, fuel)];
    if let Some(f) = &i.followup {
        let mut s = f.spec(i.driver, i.gc.clone(), i.tape.clone(), fuel);
        s.clock_start = i.clock_start;
        s.random_seed = i.random_seed;
        v.push(s);
    }
    v
}

/// One instance's work: its programs one after the other on the same interpreter; the trace is
/// the concatenation of the per-program traces.
pub struct Phased {
    specs: Vec<RunSpec>,
    cur: usize,
    run: Run,
    traces: Vec<String>,
}

impl Phased {
    pub fn new(specs: Vec<RunSpec>) -> Phased {
        let first = specs.first().cloned().unwrap_or_else(|| unreachable_spec());
        Phased { specs, cur: 0, run: Run::new(first), traces: Vec::new() }
    }
    /// One action; false once the last program has finished (its outcome is finalised then).
    pub fn advance(&mut self, h: &mut Host) -> bool {
        if self.cur >= self.specs.len() {
            return false;
        }
        if self.run.advance(h) {
            return true;
        }
        self.run.finalize(h);
        self.traces.push(full_trace(&self.run.out));
        self.cur += 1;
        if let Some(next) = self.specs.get(self.cur) {
            self.run = Run::new(next.clone());
            true
        } else {
            false
        }
    }
    pub fn instructions(&self) -> u64 {
        self.run.out.counters.instructions
    }
    pub fn trace(&self) -> String {
        self.traces.join("\n#followup\n")
    }
}

fn unreachable_spec() -> RunSpec {
    ProgCase { tree: Node::leaf("0"), answers: Default::default(), variant: HoleVariant::Sync, module_path: None, modules: Default::default(), tags: Vec::new() }
        .spec(Driver::Step, GcSched::off(), Tape::from_vec(vec![]), 1000)
}

fn solo_trace(i: &Inst, fuel: u64) -> (String, u64) {
    tsrun::verif::reset();
    tsrun::verif::set_fuel(Some(fuel * 2));
    let mut h = new_interp_flavoured(i.clock_start, i.random_seed, i.regexp_flavour);
    let mut p = Phased::new(specs_of(i, fuel));
    while p.advance(&mut h) {}
    let instr = tsrun::verif::instructions();
    tsrun::verif::set_fuel(None);
    (p.trace(), instr)
}

pub fn gen_instance(rng: &mut Rng, prefix: &str) -> Inst {
    let holes = if rng.chance(0.6) { 1 + rng.below(3) } else { 0 };
    let mut cfg = GenCfg::swarm(rng, holes);
    cfg.size = 4 + rng.below(25);
    cfg.f_timeish = rng.chance(0.85);
    cfg.f_symbol = rng.chance(0.6);
    let variant = if holes == 0 {
        HoleVariant::Sync
    } else if rng.chance(0.5) {
        HoleVariant::Order
    } else {
        HoleVariant::OrderDirect
    };
    let mut case = ProgCase::generate(rng, cfg, variant, prefix);
    if rng.chance(0.4) {
        case.module_path = Some(format!("/m/{}.ts", prefix));
        // a module with 2..6 exports (their enumeration order is part of the trace) ...
        let n_exp = 2 + rng.below(5);
        let mut ex = String::new();
        for e in 0..n_exp {
            ex.push_str(&format!("export const {}x{}: number = {};\n", prefix, (e * 5) % 7, e));
        }
        if rng.chance(0.5) {
            ex.push_str("export default 3;\n");
        }
        let at = 3.min(case.tree.kids.len());
        case.tree.kids.insert(at, Node::leaf(ex));
        if rng.chance(0.6) {
            // ... that imports two host-provided modules (compiled when the host delivers them,
            // possibly after other instances were created or dropped) and logs their key order
            // (a.ts has four imports of its own: the second request round names several modules)
            case.modules.insert("/lib/a.ts".to_string(), "import * as nb from \"./b.ts\"; import { c1 } from \"./c.ts\"; import { d1 } from \"./sub/d.ts\"; import { e1 } from \"./sub/e.ts\"; console.log(\"run a\", Object.keys(nb).join(\",\"), c1 + d1 + e1); export const a1: number = nb.b2 + 1; export default String(a1); export const a0: string = typeof Number + typeof String;".to_string());
            case.modules.insert("/lib/c.ts".to_string(), "console.log(\"run c\"); export const c1: number = 1;".to_string());
            case.modules.insert("/lib/sub/d.ts".to_string(), "console.log(\"run d\"); export const d1: number = 2;".to_string());
            case.modules.insert("/lib/sub/e.ts".to_string(), "console.log(\"run e\"); export const e1: number = 3;".to_string());
            case.modules.insert("/lib/b.ts".to_string(), "console.log(\"run b\"); export const b2: number = 41; export const b1: string = \"x\"; export function b3(): number { return Number(\"3\"); }".to_string());
            if let Some(first) = case.tree.kids.first_mut() {
                first.pre = format!("import * as __na from \"/lib/a.ts\";\n{}", first.pre);
            }
            let at = 3.min(case.tree.kids.len());
            case.tree.kids.insert(at, Node::leaf("__log.push(\"ns:\" + Object.keys(__na).join(\",\") + \":\" + __na.a0);"));
        }
    }
    if rng.chance(0.5) {
        // the same few patterns in every instance: what they match depends on the instance's RegExp engine
        let at = 3.min(case.tree.kids.len());
        let k = rng.below(2);
        case.tree.kids.insert(at, Node::leaf([
            "__log.push(\"rx:\" + \"aXbX.c\".replace(/x/g, \"_\") + /a.c/.test(\"abc\") + \"A1b2\".split(/[a-z]/).join(\"|\"));",
            "__log.push(\"rx:\" + /^[A-Z]+$/.test(\"abc\") + \"a.c abc\".replace(/a.c/, \"#\") + (\"xX\".match(/x/g) || []).length);",
        ][k]));
    }
    if rng.chance(0.5) {
        // the same console timer label in every instance, open across the whole program: the windows
        // of interleaved instances overlap
        let at = 3.min(case.tree.kids.len());
        case.tree.kids.insert(at, Node::leaf("console.time(\"boot\"); console.count(\"boots\");"));
        let n = case.tree.kids.len();
        case.tree.kids.insert(n - 1, Node::leaf("console.timeEnd(\"boot\"); console.countReset(\"boots\");"));
    }
    let followup = if rng.chance(0.45) {
        let mut fcfg = GenCfg::swarm(rng, 0);
        fcfg.size = 3 + rng.below(8);
        fcfg.f_timeish = true;
        Some(ProgCase::generate(rng, fcfg, HoleVariant::Sync, &format!("{}f", prefix)))
    } else {
        None
    };
    // per-instance collector schedules only (thresholds and host-forced collects): the injection
    // seam is per thread and would couple instances through the shared allocation index
    let gc = match rng.below(4) {
        0 => GcSched::off(),
        1 => GcSched::threshold(*rng.pick(&[1u32, 2, 3, 7, 100])),
        2 => GcSched { force_step_pm: *rng.pick(&[50u32, 300]), force_seed: rng.next_u64(), ..GcSched::threshold(100) },
        _ => GcSched { force_at_suspend: true, ..GcSched::threshold(3) },
    };
    Inst {
        case,
        tape: Tape::random(rng, 16),
        gc,
        driver: if rng.chance(0.8) { Driver::Step } else { Driver::Eval },
        clock_start: 1_600_000_000_000 + rng.below(1_000_000) as i64,
        random_seed: rng.next_u64(),
        followup,
        regexp_flavour: *rng.pick(&[0u8, 0, 0, 1, 2]),
    }
}

/// An instance whose program is an author-written corpus entry (snippet or example with its modules).
pub fn corpus_instance(rng: &mut Rng, k: usize) -> Inst {
    let c = crate::corpus::corpus();
    let total = c.snippets.len() + c.examples.len();
    let k = k % total.max(1);
    let e = if k < c.snippets.len() { &c.snippets[k] } else { &c.examples[k - c.snippets.len()] };
    let mut case = e.to_case();
    if case.module_path.is_none() && !e.src.contains("import ") && rng.chance(0.3) {
        case.module_path = Some("/m/c.ts".into());
    }
    let followup = if rng.chance(0.4) { Some(c.snippets[rng.below(c.snippets.len())].to_case()) } else { None };
    let gc = match rng.below(4) {
        0 => GcSched::off(),
        1 => GcSched::threshold(*rng.pick(&[1u32, 2, 3, 7, 100])),
        2 => GcSched { force_step_pm: *rng.pick(&[50u32, 300]), force_seed: rng.next_u64(), ..GcSched::threshold(100) },
        _ => GcSched { force_at_suspend: true, ..GcSched::threshold(3) },
    };
    Inst {
        case,
        tape: Tape::random(rng, 16),
        gc,
        driver: if rng.chance(0.8) { Driver::Step } else { Driver::Eval },
        clock_start: 1_600_000_000_000 + rng.below(1_000_000) as i64,
        random_seed: rng.next_u64(),
        followup,
        regexp_flavour: *rng.pick(&[0u8, 0, 0, 1, 2]),
    }
}

enum Cmd {
    Advance,
    Finish,
}

impl Check for C12 {
    type Scn = Scn;
    fn id(&self) -> &'static str {
        "C12"
    }
    fn rule(&self) -> String {
        "2-4 interpreter instances, each with its own progGen program (host holes, modules, clock/random/console reads, identity-keyed Map/Set, Symbols, objects past the inline-property limit, sort stability), host tape, simulated clock and random seed; modes: (a) seeded interleaving of their actions in one thread incl. late creation, early drop and forced collects, (b) prior lifetimes (A runs and is dropped, then B), (c) one OS thread per instance, released one action at a time by the scheduler; plus (d) the same seeds in fresh processes under ASLR with a shifted heap. Oracle: each instance's full trace (result, console, traffic, step count, exports) equals its solo trace; trace hashes agree across processes. non-trivial = at least two instances were really interleaved (the schedule switched instance at least twice) or a lifetime preceded; distinct = distinct (solo trace hashes, schedule switches). Also: instances running author-written corpus programs; per-instance simulated RegExp engines (default / case-folding / literal) with the same patterns in every instance; the internal source module lib:util with the same text in every instance; classes with private methods whose keys are enumerated".into()
    }
    fn components(&self) -> Value {
        json!({"real": ["Interpreter (several instances)", "BytecodeVM", "gc.rs (one heap per instance)", "string interning", "promise/symbol/order id counters"],
               "stub": ["hosts", "per-instance clock/random/console", "instance scheduler", "OS threads parked on a token (mode c)"],
               "not_run": ["ffi", "tsrun binary"]})
    }
    fn assumptions(&self) -> Vec<String> {
        vec![
            "per-instance collector schedules use thresholds and host-forced collects only; the per-thread injection seam would couple instances through a shared allocation index".into(),
            "the verification hooks' thread-local counters are shared by instances of one thread and are not part of any compared trace".into(),
        ]
    }

    fn generate(&self, rng: &mut Rng, _idx: usize, _tier: Tier) -> Scn {
        let k = 2 + rng.below(3);
        let instances = (0..k).map(|i| gen_instance(rng, ["v", "u", "w", "x"][i])).collect();
        let mode = match rng.below(10) {
            0..=5 => Mode::Interleave,
            6..=7 => Mode::PriorLifetimes,
            _ => Mode::Threads,
        };
        Scn { instances, mode, sched: Tape::random(rng, 400), fuel: 500_000, process_restart: None }
    }

    fn generate_stream(&self, stream: &str, rng: &mut Rng, idx: usize, tier: Tier) -> Scn {
        if stream != "corpus" {
            return self.generate(rng, idx, tier);
        }
        // instance 0 walks the corpus in order, the others are random corpus entries or generated programs
        let k = 2 + rng.below(2);
        let mut instances = vec![corpus_instance(rng, idx)];
        for i in 1..k {
            let pickk = rng.below(1 << 20);
            instances.push(if rng.chance(0.7) { corpus_instance(rng, pickk) } else { gen_instance(rng, ["v", "u", "w", "x"][i]) });
        }
        let mode = match rng.below(10) {
            0..=5 => Mode::Interleave,
            6..=7 => Mode::PriorLifetimes,
            _ => Mode::Threads,
        };
        Scn { instances, mode, sched: Tape::random(rng, 400), fuel: 500_000, process_restart: None }
    }

    fn shrink(&self, scn: &Scn) -> Vec<Scn> {
        let mut out = Vec::new();
        if scn.instances.len() > 2 {
            for i in 0..scn.instances.len() {
                let mut v = scn.instances.clone();
                v.remove(i);
                out.push(Scn { instances: v, ..scn.clone() });
            }
        }
        if scn.mode == Mode::Threads {
            out.push(Scn { mode: Mode::Interleave, ..scn.clone() });
        }
        if scn.sched.v.len() > 4 {
            let h = scn.sched.v.len() / 2;
            out.push(Scn { sched: Tape::from_vec(scn.sched.v[..h].to_vec()), ..scn.clone() });
        }
        for (i, inst) in scn.instances.iter().enumerate() {
            if !inst.gc.is_off() {
                let mut v = scn.instances.clone();
                v[i].gc = GcSched::off();
                out.push(Scn { instances: v, ..scn.clone() });
            }
            if let Some(f) = &inst.followup {
                let mut v = scn.instances.clone();
                v[i].followup = None;
                out.push(Scn { instances: v, ..scn.clone() });
                for c in f.shrink_tree() {
                    let mut v = scn.instances.clone();
                    v[i].followup = Some(c);
                    out.push(Scn { instances: v, ..scn.clone() });
                }
            }
            for c in inst.case.shrink_tree() {
                let mut v = scn.instances.clone();
                v[i].case = c;
                out.push(Scn { instances: v, ..scn.clone() });
            }
        }
        out
    }

    fn execute(&self, scn: &Scn) -> RunReport {
        let mut rep = RunReport::default();
        if let Some(pr) = &scn.process_restart {
            // replay of a cross-process divergence: fresh processes, ASLR, shifted heaps
            let exe = std::env::current_exe().unwrap_or_default();
            let mut hashes: Vec<String> = Vec::new();
            for p in 0..pr.procs.max(2) {
                let o = std::process::Command::new(&exe)
                    .args(["c12-worker", &pr.seed.to_string(), "1", &pr.index.to_string()])
                    .env("TSIM_PREALLOC", format!("{}", p as u64 * 7_340_033))
                    .output();
                hashes.push(match o {
                    Ok(o) if o.status.success() => String::from_utf8_lossy(&o.stdout).trim().to_string(),
                    _ => format!("worker {} failed", p),
                });
            }
            if hashes.iter().any(|h| *h != hashes[0]) {
                rep.fail(Failure::new(
                    "trace_hash_differs_across_processes",
                    format!("{} vs {}", hashes[0], hashes.iter().find(|h| **h != hashes[0]).cloned().unwrap_or_default()),
                    json!({"hashes": hashes, "seed": pr.seed, "index": pr.index}),
                ));
            }
            rep.nontrivial = true;
            rep.trace_hash = hash_str(&hashes.join("|"));
            return rep;
        }
        // 1. solo traces
        let solos: Vec<String> = scn
            .instances
            .iter()
            .map(|i| {
                let (t, instr) = solo_trace(i, scn.fuel);
                rep.sim_instructions += instr;
                t
            })
            .collect();
        let skip = solos.iter().any(|t| t.starts_with("fuel") || t.contains("#followup\nfuel"));
        if skip {
            rep.bump("skipped_fuel", 1);
            rep.trace_hash = hash_str(&solos.join("|"));
            return rep;
        }
        // 2. perturbed
        tsrun::verif::reset();
        tsrun::verif::set_fuel(Some(scn.fuel * 2 * scn.instances.len() as u64));
        let mut switches = 0u64;
        let traces: Vec<String> = match scn.mode {
            Mode::Interleave => {
                let k = scn.instances.len();
                let mut hosts: Vec<Option<Host>> = (0..k).map(|_| None).collect();
                let mut runs: Vec<Option<Phased>> = (0..k).map(|_| None).collect();
                let mut done: Vec<Option<String>> = (0..k).map(|_| None).collect();
                let mut tape = scn.sched.clone();
                let mut last = usize::MAX;
                let mut guard_rounds = 0u64;
                let mut throwaways: Vec<Host> = Vec::new();
                while done.iter().any(|d| d.is_none()) {
                    guard_rounds += 1;
                    if guard_rounds > 20_000_000 {
                        break;
                    }
                    let alive: Vec<usize> = (0..k).filter(|i| done[*i].is_none()).collect();
                    let i = alive[tape.next(alive.len())];
                    if i != last {
                        switches += 1;
                        last = i;
                    }
                    if hosts[i].is_none() {
                        let inst = &scn.instances[i];
                        hosts[i] = Some(new_interp_flavoured(inst.clock_start, inst.random_seed, inst.regexp_flavour));
                        runs[i] = Some(Phased::new(specs_of(inst, scn.fuel)));
                        rep.bump("instance_created_while_others_run", (alive.len() < k || last != usize::MAX) as u64);
                    }
                    // a burst of 1..8 actions on the chosen instance
                    let burst = 1 + tape.next(8);
                    let mut finished = false;
                    for _ in 0..burst {
                        let (Some(h), Some(r)) = (hosts[i].as_mut(), runs[i].as_mut()) else { break };
                        if !r.advance(h) {
                            finished = true;
                            break;
                        }
                    }
                    if tape.chance(1, 40)
                        && let Some(h) = hosts[i].as_mut()
                    {
                        h.interp.collect();
                        rep.bump("forced_collect_by_scheduler", 1);
                    }
                    if tape.chance(1, 25) {
                        // an unrelated instance is born between two actions; it is dropped at once or
                        // lives on for a while
                        let extra = new_interp(0, 99);
                        rep.bump("throwaway_instance_created_between_steps", 1);
                        if tape.next(2) == 0 {
                            drop(extra);
                        } else {
                            throwaways.push(extra);
                            if throwaways.len() > 3 {
                                throwaways.remove(0);
                            }
                        }
                    }
                    if finished {
                        let Some(r) = runs[i].as_ref() else { continue };
                        done[i] = Some(r.trace());
                        // drop the finished instance now or keep it around until the end
                        if tape.next(2) == 0 {
                            runs[i] = None;
                            hosts[i] = None;
                            rep.bump("instance_dropped_while_others_run", 1);
                        }
                    }
                }
                done.into_iter().map(|d| d.unwrap_or_else(|| "unfinished".into())).collect()
            }
            Mode::PriorLifetimes => {
                let mut out = Vec::new();
                for inst in &scn.instances {
                    let mut h = new_interp_flavoured(inst.clock_start, inst.random_seed, inst.regexp_flavour);
                    let mut r = Phased::new(specs_of(inst, scn.fuel));
                    while r.advance(&mut h) {}
                    out.push(r.trace());
                    switches += 1;
                    rep.bump("prior_lifetime", 1);
                    drop(r);
                    drop(h);
                }
                out
            }
            Mode::Threads => {
                let k = scn.instances.len();
                let (done_tx, done_rx) = mpsc::channel::<(usize, bool, Option<String>)>();
                let mut cmd_txs: Vec<mpsc::Sender<Cmd>> = Vec::new();
                let mut results: Vec<Option<String>> = (0..k).map(|_| None).collect();
                std::thread::scope(|sc| {
                    for (i, inst) in scn.instances.iter().enumerate() {
                        let (tx, rx) = mpsc::channel::<Cmd>();
                        cmd_txs.push(tx);
                        let done_tx = done_tx.clone();
                        let specs = specs_of(inst, scn.fuel);
                        let (cs, rs, rf) = (inst.clock_start, inst.random_seed, inst.regexp_flavour);
                        let fuel = scn.fuel;
                        sc.spawn(move || {
                            // Interpreter is !Send: built and owned by its thread
                            tsrun::verif::reset();
                            tsrun::verif::set_fuel(Some(fuel * 2));
                            let mut h = new_interp_flavoured(cs, rs, rf);
                            let mut r = Phased::new(specs);
                            let mut fin = false;
                            while let Ok(cmd) = rx.recv() {
                                match cmd {
                                    Cmd::Advance => {
                                        if !fin && !r.advance(&mut h) {
                                            fin = true;
                                            let _ = done_tx.send((i, true, Some(r.trace())));
                                        } else {
                                            let _ = done_tx.send((i, fin, None));
                                        }
                                    }
                                    Cmd::Finish => break,
                                }
                            }
                        });
                    }
                    let mut tape = scn.sched.clone();
                    let mut last = usize::MAX;
                    let mut rounds = 0u64;
                    while results.iter().any(|r| r.is_none()) && rounds < 20_000_000 {
                        rounds += 1;
                        let alive: Vec<usize> = (0..k).filter(|i| results[*i].is_none()).collect();
                        let i = alive[tape.next(alive.len())];
                        if i != last {
                            switches += 1;
                            last = i;
                        }
                        let burst = 1 + tape.next(16);
                        for _ in 0..burst {
                            if cmd_txs[i].send(Cmd::Advance).is_err() {
                                results[i] = Some("thread-gone".into());
                                break;
                            }
                            match done_rx.recv() {
                                Ok((j, fin, tr)) => {
                                    if fin {
                                        results[j] = Some(tr.unwrap_or_else(|| "finished".into()));
                                        break;
                                    }
                                }
                                Err(_) => {
                                    results[i] = Some("thread-gone".into());
                                    break;
                                }
                            }
                        }
                    }
                    for tx in &cmd_txs {
                        let _ = tx.send(Cmd::Finish);
                    }
                });
                rep.bump("thread_mode_scenarios", 1);
                results.into_iter().map(|r| r.unwrap_or_else(|| "unfinished".into())).collect()
            }
        };
        rep.sim_instructions += tsrun::verif::instructions();
        tsrun::verif::set_fuel(None);
        rep.bump("schedule_switches", switches);
        for (i, (solo, got)) in solos.iter().zip(traces.iter()).enumerate() {
            if solo != got && rep.failure.is_none() {
                let first_diff = solo
                    .lines()
                    .zip(got.lines())
                    .position(|(a, b)| a != b)
                    .unwrap_or(0);
                rep.fail(Failure::new(
                    "instance_trace_differs_from_solo",
                    format!("instance {} first differing line {}", i, first_diff),
                    json!({"instance": i, "mode": format!("{:?}", scn.mode), "solo": solo.chars().take(1500).collect::<String>(),
                           "observed": got.chars().take(1500).collect::<String>(), "first_differing_line": first_diff}),
                ));
            }
        }
        rep.nontrivial = switches >= 2;
        rep.trace_hash = hash_str(&format!("{}|{}", solos.join("|"), switches));
        rep
    }
}

/// Worker entry for the process-restart stratum: prints one line "idx hash" per scenario.
pub fn worker(seed: u64, n: usize, start: usize) {
    // shift the heap by a seed-independent, environment-chosen amount
    let shift: usize = std::env::var("TSIM_PREALLOC").ok().and_then(|s| s.parse().ok()).unwrap_or(0);
    let ballast: Vec<u8> = vec![1u8; shift];
    std::hint::black_box(&ballast);
    let sid = crate::rng::stream_id("C12/process");
    for i in start..start + n {
        let mut r = Rng::new(crate::rng::derive(seed, sid, i as u64));
        // every third seed index runs an author-written corpus program instead of a generated one
        let inst = if i % 3 == 2 { corpus_instance(&mut r, i / 3) } else { gen_instance(&mut r, "v") };
        let (t, _) = solo_trace(&inst, 500_000);
        println!("{} {:016x}", i, hash_str(&t));
    }
}
