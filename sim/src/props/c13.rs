//! C13 — The collector implements guard reachability exactly and memory-safely.
//!
//! System: `tsrun::gc::{Heap, Guard, Gc}` driven directly with a harness-defined node type.
//! Oracle: explicit reference reachability graph; `live_objects` after collect; contents of
//! everything reachable; pool reuse; H1 stale-deref log empty. The same histories are re-run
//! under ASan / Miri by the check driver (memory oracle).

use crate::framework::{Check, Failure, RunReport, Tier};
use crate::rng::Rng;
use serde::{Deserialize, Serialize};
use serde_json::{Value, json};
use tsrun::gc::{Gc, GcPtr, Guard, Heap, Reset, Traceable};

#[derive(Default)]
pub struct Node {
    payload: u64,
    edges: Vec<Gc<Node>>,
}
impl Reset for Node {
    fn reset(&mut self) {
        self.payload = 0;
        self.edges.clear();
    }
}
impl Traceable for Node {
    fn trace<F: FnMut(GcPtr<Self>)>(&self, mut visitor: F) {
        for e in &self.edges {
            visitor(e.copy_ref());
        }
    }
}

#[derive(Clone, Debug, Serialize, Deserialize, PartialEq)]
pub enum Op {
    CreateGuard,
    DropGuard(u32),
    Alloc(u32),
    Link(u32, u32),
    Unlink(u32, u32),
    Guard(u32, u32),
    Unguard(u32, u32),
    ClearGuard(u32),
    CloneHandle(u32),
    DropHandle(u32),
    /// clone or drop a handle the model knows to be stale (legal: keeps/drops a dead handle)
    CloneStale(u32),
    DropStale(u32),
    Write(u32, u32),
    Collect,
    SetThreshold(u32),
    ReadAll,
    DropHeap,
    NewHeap,
    /// guard bookkeeping on a guard whose heap is gone, with a handle of that same heap:
    /// kind 0 `guard` (a no-op without the heap), 1 `unguard` (pure bookkeeping), 2 `clear`,
    /// 3 `len`/`is_empty`. All four are legal and must not touch the freed arena.
    Orphan(u32, u32, u8),
    /// `guard.guard(h)` / `guard.unguard(&h)` with a handle whose object was reclaimed. While the
    /// slot is free both are no-ops (unguard returns false). Once the slot has a new tenant they
    /// act on that tenant (recorded finding KF-C13-2): generated histories skip that case, the
    /// witness sets `stale_guard_on_reused_slot`.
    GuardStale(u32, u32),
    UnguardStale(u32, u32),
    /// guard up to b%48 live handles into one guard (large root buffers)
    GuardMany(u32, u32),
    /// create n%40 guards, give each a root, then drop them all (fills the guard-storage pool)
    GuardBurst(u32, u32),
}

#[derive(Clone, Debug, Serialize, Deserialize)]
pub struct Scn {
    pub ops: Vec<Op>,
    pub initial_threshold: u32,
    /// check everything after every op (short histories) or only at ReadAll/Collect
    pub dense_checks: bool,
    /// execute in a child process: the child's death (signal, abort, sanitizer report) is the
    /// observation. Used for histories that drop the heap while handles and guards survive.
    #[serde(default)]
    pub isolated: bool,
    /// perform GuardStale / UnguardStale even when the stale handle's slot has a new tenant
    #[serde(default)]
    pub stale_guard_on_reused_slot: bool,
}

pub struct C13 {
    /// generate histories that drop the heap with survivors (run in worker processes only)
    pub heap_drop_stratum: bool,
}

pub const C13: C13 = C13 { heap_drop_stratum: false };
pub const C13_MEM: C13 = C13 { heap_drop_stratum: true };

/// Run one scenario in a child process of this binary; a dead child is a failure.
pub fn run_isolated(scn: &Scn) -> RunReport {
    // natively first; a history that the native worker survives is run again under the
    // AddressSanitizer build (when ./check built one), which is where the batch found the
    // sanitizer-only failures, so that their replay files reproduce
    let native = std::env::var("TSIM_MEM_EXE").ok().map(std::path::PathBuf::from).or_else(|| std::env::current_exe().ok()).unwrap_or_default();
    let rep = run_isolated_with(scn, &native);
    if rep.failure.is_some() || std::env::var("TSIM_MEM_EXE").is_ok() {
        return rep;
    }
    let asan = std::env::current_exe().ok().and_then(|e| e.parent().and_then(|p| p.parent()).and_then(|p| p.parent()).map(|p| p.join("target-asan/x86_64-unknown-linux-gnu/release/tsim")));
    match asan {
        Some(a) if a.exists() && a != native => {
            let r2 = run_isolated_with(scn, &a);
            if r2.failure.is_some() { r2 } else { rep }
        }
        _ => rep,
    }
}

fn run_isolated_with(scn: &Scn, exe: &std::path::Path) -> RunReport {
    use std::io::Write;
    let mut rep = RunReport::default();
    let mut inner = scn.clone();
    inner.isolated = false;
    let json = serde_json::to_string(&inner).unwrap_or_default();
    let child = std::process::Command::new(exe)
        .env("ASAN_OPTIONS", "detect_leaks=0:abort_on_error=0:exitcode=99")
        .arg("c13-exec-one")
        .stdin(std::process::Stdio::piped())
        .stdout(std::process::Stdio::piped())
        .stderr(std::process::Stdio::piped())
        .spawn();
    let Ok(mut child) = child else {
        rep.fail(Failure::new("harness_cannot_spawn_worker", "spawn failed", json!({})));
        return rep;
    };
    if let Some(mut si) = child.stdin.take() {
        let _ = si.write_all(json.as_bytes());
    }
    let out = child.wait_with_output();
    match out {
        Ok(o) => {
            let stdout = String::from_utf8_lossy(&o.stdout).to_string();
            let stderr = String::from_utf8_lossy(&o.stderr).to_string();
            if o.status.success() {
                // child prints "OK <hash> <nontrivial>" or "FAIL <clause> <observed>"
                if let Some(l) = stdout.lines().find(|l| l.starts_with("FAIL ")) {
                    let mut it = l.splitn(3, ' ');
                    let _ = it.next();
                    let clause = it.next().unwrap_or("?");
                    let obs = it.next().unwrap_or("");
                    rep.fail(Failure::new(clause, obs, json!({"isolated": true})));
                } else if let Some(l) = stdout.lines().find(|l| l.starts_with("OK ")) {
                    let mut it = l.split(' ');
                    let _ = it.next();
                    rep.trace_hash = it.next().and_then(|h| u64::from_str_radix(h, 16).ok()).unwrap_or(0);
                    rep.nontrivial = it.next() == Some("1");
                }
            } else {
                use std::os::unix::process::ExitStatusExt;
                let how = match (o.status.code(), o.status.signal()) {
                    (_, Some(sig)) => format!("killed by signal {}", sig),
                    (Some(c), _) => format!("exit code {}", c),
                    _ => "died".to_string(),
                };
                let asan = stderr.contains("AddressSanitizer");
                let clause = if asan { "memory_error_reported_by_sanitizer" } else { "worker_process_died" };
                let first: String = stderr.lines().filter(|l| l.contains("ERROR") || l.contains("SUMMARY") || l.contains("panicked") || l.contains("free") || l.contains("corrupt")).take(3).collect::<Vec<_>>().join(" | ");
                rep.fail(Failure::new(clause, how.clone(), json!({"how": how, "stderr_excerpt": first.chars().take(600).collect::<String>()})));
            }
        }
        Err(e) => rep.fail(Failure::new("harness_cannot_wait_worker", e.to_string(), json!({}))),
    }
    rep
}

struct MNode {
    payload: u64,
    edges: Vec<usize>,
    reclaimed: bool,
    heap_gen: u32,
    slot: usize,
}

struct Sim {
    heap: Option<Heap<Node>>,
    heap_gen: u32,
    nodes: Vec<MNode>,
    guards: Vec<Option<(u32, Vec<usize>)>>, // (heap_gen, roots)
    rguards: Vec<Option<Guard<Node>>>,
    handles: Vec<Option<usize>>,
    rhandles: Vec<Option<Gc<Node>>>,
    slots_total: usize, // GcBox slots of the current heap
    uniq: u64,
    rep: RunReport,
    trace: String,
}

fn node_stale(s: &Sim, id: usize) -> bool {
    s.nodes[id].reclaimed || s.nodes[id].heap_gen != s.heap_gen || s.heap.is_none()
}

impl Sim {
    fn live_handles(&self) -> Vec<usize> {
        (0..self.handles.len())
            .filter(|&h| self.handles[h].is_some_and(|id| !node_stale(self, id)))
            .collect()
    }
    fn stale_handles(&self) -> Vec<usize> {
        (0..self.handles.len())
            .filter(|&h| self.handles[h].is_some_and(|id| node_stale(self, id)))
            .collect()
    }
    fn live_guards(&self) -> Vec<usize> {
        (0..self.guards.len())
            .filter(|&g| {
                self.guards[g]
                    .as_ref()
                    .is_some_and(|(hg, _)| *hg == self.heap_gen && self.heap.is_some())
            })
            .collect()
    }
    fn any_guards(&self) -> Vec<usize> {
        (0..self.guards.len())
            .filter(|&g| self.guards[g].is_some())
            .collect()
    }
    fn reachable(&self) -> Vec<bool> {
        let mut mark = vec![false; self.nodes.len()];
        let mut stack: Vec<usize> = Vec::new();
        for g in self.live_guards() {
            if let Some((_, roots)) = &self.guards[g] {
                for &r in roots {
                    if !self.nodes[r].reclaimed {
                        stack.push(r);
                    }
                }
            }
        }
        while let Some(n) = stack.pop() {
            if mark[n] {
                continue;
            }
            mark[n] = true;
            for &e in &self.nodes[n].edges {
                if !mark[e] {
                    stack.push(e);
                }
            }
        }
        mark
    }
    fn model_collect(&mut self) -> usize {
        let mark = self.reachable();
        let mut n = 0;
        for i in 0..self.nodes.len() {
            if !self.nodes[i].reclaimed && self.nodes[i].heap_gen == self.heap_gen && !mark[i] {
                self.nodes[i].reclaimed = true;
                self.nodes[i].edges.clear();
                n += 1;
            }
        }
        n
    }
    fn model_live(&self) -> usize {
        self.nodes
            .iter()
            .filter(|n| !n.reclaimed && n.heap_gen == self.heap_gen)
            .count()
    }
    fn fail(&mut self, clause: &str, observed: String, detail: Value) {
        self.rep.fail(Failure::new(clause, observed, detail));
    }

    /// Compare everything the model says is readable with the real heap.
    fn check_contents(&mut self, at: usize) {
        if self.heap.is_none() {
            return;
        }
        // 1. every non-stale handle reads its node's payload and edge payloads
        for h in 0..self.handles.len() {
            let Some(id) = self.handles[h] else { continue };
            if node_stale(self, id) {
                continue;
            }
            let Some(real) = self.rhandles[h].as_ref() else { continue };
            let (p, edges): (u64, Vec<u64>) = {
                let b = real.borrow();
                (b.payload, b.edges.iter().map(|e| e.borrow().payload).collect())
            };
            let exp_edges: Vec<u64> = self.nodes[id].edges.iter().map(|&e| self.nodes[e].payload).collect();
            if p != self.nodes[id].payload || edges != exp_edges {
                let reach = self.reachable()[id];
                let clause = if reach { "reachable_object_lost_contents" } else { "unreclaimed_object_lost_contents" };
                self.fail(
                    clause,
                    format!("node {} payload {} edges {:?}", id, p, edges),
                    json!({"at_op": at, "node": id, "expected_payload": self.nodes[id].payload, "observed_payload": p,
                           "expected_edges": exp_edges, "observed_edges": edges, "reachable": reach}),
                );
                return;
            }
        }
        // 2. walk from live guards through real edges: reachable closure equals the model's
        let mark = self.reachable();
        let expected: usize = mark.iter().filter(|m| **m).count();
        // real walk via handles of roots: use payload identity
        let mut seen: std::collections::HashSet<u64> = std::collections::HashSet::new();
        let mut stack: Vec<Gc<Node>> = Vec::new();
        for g in self.live_guards() {
            if let Some((_, roots)) = &self.guards[g] {
                for &r in roots {
                    if self.nodes[r].reclaimed {
                        continue;
                    }
                    // find any handle for r
                    if let Some(h) = (0..self.handles.len()).find(|&h| self.handles[h] == Some(r) && self.rhandles[h].is_some())
                        && let Some(gc) = self.rhandles[h].as_ref()
                    {
                        stack.push(gc.clone());
                    }
                }
            }
        }
        let mut walked = 0usize;
        while let Some(gc) = stack.pop() {
            let (p, kids): (u64, Vec<Gc<Node>>) = {
                let b = gc.borrow();
                (b.payload, b.edges.clone())
            };
            if !seen.insert(p) {
                continue;
            }
            walked += 1;
            if walked > self.nodes.len() + 1 {
                break;
            }
            for k in kids {
                stack.push(k);
            }
        }
        // roots without any harness handle cannot be walked; only compare when every root has one
        let all_roots_have_handles = self.live_guards().iter().all(|&g| {
            self.guards[g].as_ref().is_some_and(|(_, roots)| {
                roots.iter().all(|r| {
                    self.nodes[*r].reclaimed
                        || (0..self.handles.len()).any(|h| self.handles[h] == Some(*r))
                })
            })
        });
        if all_roots_have_handles && walked != expected {
            self.fail(
                "reachable_closure_differs",
                format!("walked {} expected {}", walked, expected),
                json!({"at_op": at, "walked": walked, "expected": expected}),
            );
        }
    }

    fn check_after_collect(&mut self, at: usize, auto: bool) {
        let Some(heap) = self.heap.as_ref() else { return };
        let st = heap.stats();
        let live = self.model_live();
        if st.live_objects != live {
            self.fail(
                "live_objects_after_collect",
                format!("live_objects {} model {}", st.live_objects, live),
                json!({"at_op": at, "auto": auto, "live_objects": st.live_objects, "pooled": st.pooled_objects,
                       "total": st.total_objects, "model_live": live}),
            );
        }
    }
}

impl Check for C13 {
    type Scn = Scn;
    fn id(&self) -> &'static str {
        "C13"
    }
    fn rule(&self) -> String {
        "seeded operation histories over Heap/Guard/Gc (create/drop guard, alloc, link, unlink, guard, unguard, clear, clone/drop handle incl. stale ones, write, collect, set_threshold, read_all, drop_heap with survivors, new_heap); short dense (<=14 ops) and long (up to 20000 ops) strata; non-trivial = at least one collection ran AND at least one object was reclaimed or a heap was dropped with survivors; distinct = distinct hash of (op trace with resolved indices + stats after each collection). Also: guard/unguard with stale handles while their slot is free (must be no-ops; on a reused slot = recorded finding KF-C13-2/2b, skipped), GuardMany (up to 47 roots in one guard), GuardBurst (1-40 guards created with a root and dropped: guard-storage pool of 16), guard-storm weights, new guards must be empty".into()
    }
    fn components(&self) -> Value {
        json!({"real": ["tsrun::gc::Heap", "tsrun::gc::Guard", "tsrun::gc::Gc (Space, mark, sweep, pool)"],
               "stub": ["Node type (payload + edge list) defined by the harness"], "not_run": ["interpreter"]})
    }
    fn assumptions(&self) -> Vec<String> {
        vec![
            "the harness never borrows through a handle the model knows to be stale (it does clone and drop them)".into(),
            "guard.alloc() after the heap was dropped is a documented panic and is not generated".into(),
        ]
    }

    fn generate(&self, rng: &mut Rng, idx: usize, tier: Tier) -> Scn {
        let long = match tier {
            Tier::Quick => idx % 500 == 499,
            Tier::Thorough => idx % 500 == 499,
        };
        let n = if long {
            rng.range(2000, 20000) as usize
        } else if rng.chance(0.7) {
            rng.range(3, 14) as usize
        } else {
            rng.range(15, 120) as usize
        };
        // swarm: per-run weights
        let heavy_alloc = long || rng.chance(0.3);
        let with_heap_drop = self.heap_drop_stratum;
        let stale_ops = rng.chance(0.6);
        let mut w = vec![
            6,                                 // CreateGuard
            if long { 3 } else { 4 },          // DropGuard
            if heavy_alloc { 40 } else { 14 }, // Alloc
            12,                                // Link
            4,                                 // Unlink
            6,                                 // Guard
            5,                                 // Unguard
            2,                                 // ClearGuard
            6,                                 // CloneHandle
            if long { 14 } else { 8 },         // DropHandle
            if stale_ops { 5 } else { 0 },     // CloneStale
            if stale_ops { 8 } else { 0 },     // DropStale
            4,                                 // Write
            if long { 1 } else { 8 },          // Collect
            2,                                 // SetThreshold
            if long { 0 } else { 3 },          // ReadAll
            if with_heap_drop { 2 } else { 0 }, // DropHeap
            if with_heap_drop { 3 } else { 0 }, // NewHeap
            if with_heap_drop { 4 } else { 0 }, // Orphan
            if stale_ops { 4 } else { 0 },      // GuardStale
            if stale_ops { 4 } else { 0 },      // UnguardStale
            2,                                  // GuardMany
            1,                                  // GuardBurst
        ];
        if rng.chance(0.15) {
            // guard storm: many guards come and go (guard-storage pool of 16), some with many roots
            w[0] = 25;
            w[1] = 22;
            w[5] = 14;
            w[21] = 8;
            w[22] = 6;
        }
        if rng.chance(0.15) {
            // disable a random kind
            let k = rng.below(w.len());
            if k != 2 {
                w[k] = 0;
            }
        }
        let thresholds = [0u32, 1, 2, 3, 7, 100];
        let mut ops = Vec::with_capacity(n + 1);
        ops.push(Op::CreateGuard);
        for _ in 0..n {
            let a = (rng.next_u64() & 0xffff) as u32;
            let b = (rng.next_u64() & 0xffff) as u32;
            let op = match rng.weighted(&w) {
                0 => Op::CreateGuard,
                1 => Op::DropGuard(a),
                2 => Op::Alloc(a),
                3 => Op::Link(a, b),
                4 => Op::Unlink(a, b),
                5 => Op::Guard(a, b),
                6 => Op::Unguard(a, b),
                7 => Op::ClearGuard(a),
                8 => Op::CloneHandle(a),
                9 => Op::DropHandle(a),
                10 => Op::CloneStale(a),
                11 => Op::DropStale(a),
                12 => Op::Write(a, b),
                13 => Op::Collect,
                14 => Op::SetThreshold(*rng.pick(&thresholds)),
                15 => Op::ReadAll,
                16 => Op::DropHeap,
                17 => Op::NewHeap,
                18 => Op::Orphan(a, b, rng.below(4) as u8),
                19 => Op::GuardStale(a, b),
                20 => Op::UnguardStale(a, b),
                21 => Op::GuardMany(a, b),
                _ => Op::GuardBurst(a, b),
            };
            ops.push(op);
        }
        if long {
            ops.push(Op::Collect);
            ops.push(Op::ReadAll);
        }
        Scn {
            ops,
            initial_threshold: *rng.pick(&thresholds),
            dense_checks: !long,
            isolated: false,
            stale_guard_on_reused_slot: false,
        }
    }

    fn shrink(&self, scn: &Scn) -> Vec<Scn> {
        let mut out = Vec::new();
        let n = scn.ops.len();
        // drop halves, quarters, …, single ops
        let mut chunk = n / 2;
        while chunk >= 1 {
            let mut start = 0;
            while start < n {
                let end = (start + chunk).min(n);
                let mut ops = scn.ops.clone();
                ops.drain(start..end);
                out.push(Scn { ops, ..scn.clone() });
                start += chunk;
            }
            if chunk == 1 {
                break;
            }
            chunk /= 2;
            if out.len() > 3000 {
                break;
            }
        }
        if scn.initial_threshold != 0 {
            out.push(Scn { initial_threshold: 0, ..scn.clone() });
        }
        out
    }

    fn execute(&self, scn: &Scn) -> RunReport {
        if scn.isolated {
            return run_isolated(scn);
        }
        tsrun::verif::reset();
        let heap: Heap<Node> = Heap::new();
        heap.set_gc_threshold(scn.initial_threshold as usize);
        let mut s = Sim {
            heap: Some(heap),
            heap_gen: 0,
            nodes: Vec::new(),
            guards: Vec::new(),
            rguards: Vec::new(),
            handles: Vec::new(),
            rhandles: Vec::new(),
            slots_total: 0,
            uniq: 1,
            rep: RunReport::default(),
            trace: String::new(),
        };
        let mut reclaimed_total = 0u64;
        let mut heap_drops_with_survivors = 0u64;
        use std::fmt::Write as _;
        for (at, op) in scn.ops.iter().enumerate() {
            if s.rep.failure.is_some() {
                break;
            }
            match op {
                Op::CreateGuard => {
                    if let Some(h) = s.heap.as_ref() {
                        let g = h.create_guard();
                        if g.len() != 0 || !g.is_empty() {
                            let l = g.len();
                            s.fail("new_guard_not_empty", format!("len {}", l), json!({"at_op": at}));
                        }
                        s.rguards.push(Some(g));
                        s.guards.push(Some((s.heap_gen, Vec::new())));
                        let _ = write!(s.trace, "G{};", s.guards.len() - 1);
                    }
                }
                Op::DropGuard(a) => {
                    let gs = s.any_guards();
                    if gs.is_empty() {
                        continue;
                    }
                    let g = gs[*a as usize % gs.len()];
                    if s.rguards.iter().filter(|x| x.is_some()).count() > 16 {
                        s.rep.bump("guard_pool_boundary_crossed", 1);
                    }
                    s.rguards[g] = None;
                    s.guards[g] = None;
                    let _ = write!(s.trace, "g{};", g);
                }
                Op::Alloc(a) => {
                    let gs = s.live_guards();
                    if gs.is_empty() {
                        continue;
                    }
                    let g = gs[*a as usize % gs.len()];
                    let before = tsrun::verif::counters().collections;
                    let stats_before = s.heap.as_ref().map(|h| h.stats());
                    let obj = match s.rguards[g].as_ref() {
                        Some(rg) => rg.alloc(),
                        None => continue,
                    };
                    let after = tsrun::verif::counters().collections;
                    if after > before {
                        // automatic collection ran before this allocation
                        let n = s.model_collect();
                        reclaimed_total += n as u64;
                        s.rep.bump("auto_collections", after - before);
                        s.rep.bump("objects_reclaimed", n as u64);
                    }
                    // pool reuse: if the model has free slots the arena must not grow
                    let model_free = s.slots_total - s.model_live();
                    let st = s.heap.as_ref().map(|h| h.stats());
                    if let (Some(b), Some(a2)) = (stats_before, st) {
                        let grew = a2.total_objects > b.total_objects;
                        if after > before || true {
                            if model_free > 0 && grew {
                                s.fail(
                                    "reclaimed_slot_not_reused",
                                    format!("arena grew to {} with {} model-free slots", a2.total_objects, model_free),
                                    json!({"at_op": at, "model_free": model_free, "total_before": b.total_objects, "total_after": a2.total_objects}),
                                );
                            }
                            if model_free == 0 && !grew {
                                s.fail(
                                    "live_slot_reused",
                                    format!("arena stayed at {} with no model-free slot", a2.total_objects),
                                    json!({"at_op": at, "total": a2.total_objects, "model_live": s.model_live()}),
                                );
                            }
                        }
                        if grew {
                            s.slots_total += 1;
                            if s.slots_total % 256 == 1 && s.slots_total > 1 {
                                s.rep.bump("chunk_boundary_crossed", 1);
                            }
                        } else {
                            s.rep.bump("slot_reuse", 1);
                            if !s.stale_handles().is_empty() {
                                s.rep.bump("slot_reuse_with_stale_handle_alive", 1);
                            }
                        }
                    }
                    // a fresh object is in the reset state
                    let (p0, e0) = {
                        let b = obj.borrow();
                        (b.payload, b.edges.len())
                    };
                    if p0 != 0 || e0 != 0 {
                        s.fail(
                            "new_object_not_reset",
                            format!("payload {} edges {}", p0, e0),
                            json!({"at_op": at}),
                        );
                    }
                    let payload = s.uniq;
                    s.uniq += 1;
                    obj.borrow_mut().payload = payload;
                    let id = s.nodes.len();
                    s.nodes.push(MNode {
                        payload,
                        edges: Vec::new(),
                        reclaimed: false,
                        heap_gen: s.heap_gen,
                        slot: obj.verif_slot(),
                    });
                    if let Some((_, roots)) = s.guards[g].as_mut() {
                        roots.push(id);
                    }
                    s.handles.push(Some(id));
                    s.rhandles.push(Some(obj));
                    let _ = write!(s.trace, "A{}:{};", g, id);
                    if after > before {
                        s.check_after_collect(at, true);
                    }
                }
                Op::Link(a, b) => {
                    let hs = s.live_handles();
                    if hs.is_empty() {
                        continue;
                    }
                    let ha = hs[*a as usize % hs.len()];
                    let hb = hs[*b as usize % hs.len()];
                    let (ia, ib) = (s.handles[ha].unwrap(), s.handles[hb].unwrap());
                    let target = s.rhandles[hb].as_ref().unwrap().clone();
                    s.rhandles[ha].as_ref().unwrap().borrow_mut().edges.push(target);
                    s.nodes[ia].edges.push(ib);
                    let _ = write!(s.trace, "L{}>{};", ia, ib);
                }
                Op::Unlink(a, b) => {
                    let hs: Vec<usize> = s
                        .live_handles()
                        .into_iter()
                        .filter(|&h| !s.nodes[s.handles[h].unwrap()].edges.is_empty())
                        .collect();
                    if hs.is_empty() {
                        continue;
                    }
                    let ha = hs[*a as usize % hs.len()];
                    let ia = s.handles[ha].unwrap();
                    let i = *b as usize % s.nodes[ia].edges.len();
                    let removed = s.rhandles[ha].as_ref().unwrap().borrow_mut().edges.remove(i);
                    drop(removed);
                    s.nodes[ia].edges.remove(i);
                    let _ = write!(s.trace, "U{}#{};", ia, i);
                }
                Op::Guard(a, b) => {
                    let gs = s.live_guards();
                    let hs = s.live_handles();
                    if gs.is_empty() || hs.is_empty() {
                        continue;
                    }
                    let g = gs[*a as usize % gs.len()];
                    let h = hs[*b as usize % hs.len()];
                    let id = s.handles[h].unwrap();
                    let gc = s.rhandles[h].as_ref().unwrap().clone();
                    s.rguards[g].as_ref().unwrap().guard(gc);
                    s.guards[g].as_mut().unwrap().1.push(id);
                    let _ = write!(s.trace, "R{}+{};", g, id);
                }
                Op::Unguard(a, b) => {
                    let gs = s.live_guards();
                    let hs = s.live_handles();
                    if gs.is_empty() || hs.is_empty() {
                        continue;
                    }
                    let g = gs[*a as usize % gs.len()];
                    let h = hs[*b as usize % hs.len()];
                    let id = s.handles[h].unwrap();
                    let found = s.rguards[g].as_ref().unwrap().unguard(s.rhandles[h].as_ref().unwrap());
                    let roots = &mut s.guards[g].as_mut().unwrap().1;
                    let mfound = if let Some(pos) = roots.iter().position(|r| *r == id) {
                        roots.swap_remove(pos);
                        true
                    } else {
                        false
                    };
                    if found != mfound {
                        s.fail(
                            "unguard_result",
                            format!("real {} model {}", found, mfound),
                            json!({"at_op": at, "guard": g, "node": id}),
                        );
                    }
                    let _ = write!(s.trace, "R{}-{}:{};", g, id, found);
                }
                Op::GuardStale(a, b) | Op::UnguardStale(a, b) => {
                    let gs = s.live_guards();
                    // stale handles of the CURRENT heap whose object the collector reclaimed
                    let hs: Vec<usize> = s
                        .stale_handles()
                        .into_iter()
                        .filter(|&h| s.handles[h].is_some_and(|id| s.nodes[id].heap_gen == s.heap_gen && s.nodes[id].reclaimed))
                        .collect();
                    if gs.is_empty() || hs.is_empty() || s.heap.is_none() {
                        continue;
                    }
                    let g = gs[*a as usize % gs.len()];
                    let h = hs[*b as usize % hs.len()];
                    let slot = s.rhandles[h].as_ref().unwrap().verif_slot();
                    let occupied = s.nodes.iter().any(|n| !n.reclaimed && n.heap_gen == s.heap_gen && n.slot == slot);
                    if occupied && !scn.stale_guard_on_reused_slot {
                        s.rep.bump("stale_guard_op_skipped_slot_has_new_tenant", 1);
                        continue;
                    }
                    if occupied {
                        s.rep.bump("stale_guard_op_on_reused_slot", 1);
                    } else {
                        s.rep.bump("stale_guard_op_on_free_slot", 1);
                    }
                    let id = s.handles[h].unwrap();
                    if matches!(op, Op::GuardStale(..)) {
                        let gc = s.rhandles[h].as_ref().unwrap().clone();
                        s.rguards[g].as_ref().unwrap().guard(gc);
                        let _ = write!(s.trace, "RS{}+{};", g, id);
                    } else {
                        let found = s.rguards[g].as_ref().unwrap().unguard(s.rhandles[h].as_ref().unwrap());
                        if found {
                            s.fail("unguard_of_dead_object_found_a_root", format!("guard {} node {}", g, id), json!({"at_op": at, "guard": g, "node": id, "slot_has_new_tenant": occupied}));
                        }
                        let _ = write!(s.trace, "RS{}-{}:{};", g, id, found);
                    }
                    // the model does not change: a dead object cannot be rooted or un-rooted
                }
                Op::GuardMany(a, b) => {
                    let gs = s.live_guards();
                    let hs = s.live_handles();
                    if gs.is_empty() || hs.is_empty() {
                        continue;
                    }
                    let g = gs[*a as usize % gs.len()];
                    let n = (*b as usize % 48).min(hs.len());
                    for k in 0..n {
                        let h = hs[(*b as usize + k * 7) % hs.len()];
                        let id = s.handles[h].unwrap();
                        let gc = s.rhandles[h].as_ref().unwrap().clone();
                        s.rguards[g].as_ref().unwrap().guard(gc);
                        s.guards[g].as_mut().unwrap().1.push(id);
                    }
                    let _ = write!(s.trace, "RM{}x{};", g, n);
                }
                Op::GuardBurst(a, b) => {
                    let hs = s.live_handles();
                    let Some(heap) = s.heap.as_ref() else { continue };
                    let n = 1 + (*a as usize % 40);
                    let mut tmp = Vec::new();
                    for k in 0..n {
                        let g = heap.create_guard();
                        if !hs.is_empty() {
                            // temporary extra roots of live objects: no effect on reachability once dropped
                            let h = hs[(*b as usize + k) % hs.len()];
                            g.guard(s.rhandles[h].as_ref().unwrap().clone());
                        }
                        tmp.push(g);
                    }
                    drop(tmp);
                    s.rep.bump("guard_bursts", 1);
                    if n > 16 {
                        s.rep.bump("guard_pool_boundary_crossed", 1);
                    }
                    let _ = write!(s.trace, "GB{};", n);
                }
                Op::ClearGuard(a) => {
                    let gs = s.any_guards();
                    if gs.is_empty() {
                        continue;
                    }
                    let g = gs[*a as usize % gs.len()];
                    s.rguards[g].as_ref().unwrap().clear();
                    s.guards[g].as_mut().unwrap().1.clear();
                    let _ = write!(s.trace, "C{};", g);
                }
                Op::CloneHandle(a) => {
                    let hs = s.live_handles();
                    if hs.is_empty() {
                        continue;
                    }
                    let h = hs[*a as usize % hs.len()];
                    let gc = s.rhandles[h].as_ref().unwrap().clone();
                    s.handles.push(s.handles[h]);
                    s.rhandles.push(Some(gc));
                    let _ = write!(s.trace, "H{};", s.handles[h].unwrap());
                }
                Op::DropHandle(a) => {
                    let hs = s.live_handles();
                    if hs.is_empty() {
                        continue;
                    }
                    let h = hs[*a as usize % hs.len()];
                    let _ = write!(s.trace, "h{};", s.handles[h].unwrap());
                    s.rhandles[h] = None;
                    s.handles[h] = None;
                }
                Op::CloneStale(a) => {
                    let hs = s.stale_handles();
                    if hs.is_empty() {
                        continue;
                    }
                    let h = hs[*a as usize % hs.len()];
                    let gc = s.rhandles[h].as_ref().unwrap().clone();
                    s.handles.push(s.handles[h]);
                    s.rhandles.push(Some(gc));
                    s.rep.bump("stale_handle_cloned", 1);
                    let _ = write!(s.trace, "S{};", s.handles[h].unwrap());
                }
                Op::DropStale(a) => {
                    let hs = s.stale_handles();
                    if hs.is_empty() {
                        continue;
                    }
                    let h = hs[*a as usize % hs.len()];
                    let _ = write!(s.trace, "s{};", s.handles[h].unwrap());
                    s.rhandles[h] = None;
                    s.handles[h] = None;
                    s.rep.bump("stale_handle_dropped", 1);
                }
                Op::Write(a, b) => {
                    let hs = s.live_handles();
                    if hs.is_empty() {
                        continue;
                    }
                    let h = hs[*a as usize % hs.len()];
                    let id = s.handles[h].unwrap();
                    let payload = ((*b as u64) << 32) | s.uniq;
                    s.uniq += 1;
                    s.rhandles[h].as_ref().unwrap().borrow_mut().payload = payload;
                    s.nodes[id].payload = payload;
                    let _ = write!(s.trace, "W{};", id);
                }
                Op::Collect => {
                    if let Some(h) = s.heap.as_ref() {
                        h.collect();
                        let n = s.model_collect();
                        reclaimed_total += n as u64;
                        s.rep.bump("forced_collections", 1);
                        s.rep.bump("objects_reclaimed", n as u64);
                        s.check_after_collect(at, false);
                        let st = s.heap.as_ref().unwrap().stats();
                        let _ = write!(s.trace, "X{}/{};", st.live_objects, st.total_objects);
                        if !s.dense_or(scn) {
                            s.check_contents(at);
                        }
                    }
                }
                Op::SetThreshold(t) => {
                    if let Some(h) = s.heap.as_ref() {
                        h.set_gc_threshold(*t as usize);
                        let _ = write!(s.trace, "T{};", t);
                    }
                }
                Op::ReadAll => {
                    s.check_contents(at);
                    let _ = write!(s.trace, "?;");
                }
                Op::DropHeap => {
                    if s.heap.is_some() {
                        let survivors = s.rhandles.iter().filter(|h| h.is_some()).count()
                            + s.rguards.iter().filter(|g| g.is_some()).count();
                        if survivors > 0 {
                            heap_drops_with_survivors += 1;
                            s.rep.bump("heap_dropped_with_survivors", 1);
                        }
                        s.heap = None;
                        let _ = write!(s.trace, "D;");
                    }
                }
                Op::Orphan(a, b, kind) => {
                    // guards whose heap has been dropped (also while a newer heap exists)
                    let gs: Vec<usize> = (0..s.guards.len())
                        .filter(|&g| s.guards[g].as_ref().is_some_and(|(hg, _)| *hg != s.heap_gen || s.heap.is_none()))
                        .collect();
                    if gs.is_empty() {
                        continue;
                    }
                    let g = gs[*a as usize % gs.len()];
                    let ggen = s.guards[g].as_ref().map(|x| x.0).unwrap_or(0);
                    let hs: Vec<usize> = (0..s.handles.len())
                        // handles of that heap whose object was never reclaimed: a handle that was
                        // stale before the drop may alias a reused slot, so its identity is ambiguous
                        .filter(|&h| s.handles[h].is_some_and(|id| s.nodes[id].heap_gen == ggen && !s.nodes[id].reclaimed))
                        .collect();
                    match kind {
                        0 | 1 if hs.is_empty() => continue,
                        0 => {
                            let h = hs[*b as usize % hs.len()];
                            let gc = s.rhandles[h].as_ref().unwrap().clone();
                            s.rguards[g].as_ref().unwrap().guard(gc);
                        }
                        1 => {
                            let h = hs[*b as usize % hs.len()];
                            let id = s.handles[h].unwrap();
                            let found = s.rguards[g].as_ref().unwrap().unguard(s.rhandles[h].as_ref().unwrap());
                            let roots = &mut s.guards[g].as_mut().unwrap().1;
                            let mfound = if let Some(pos) = roots.iter().position(|r| *r == id) {
                                roots.swap_remove(pos);
                                true
                            } else {
                                false
                            };
                            if found != mfound {
                                s.fail("unguard_result", format!("orphan guard: real {} model {}", found, mfound), json!({"at_op": at, "guard": g, "node": id}));
                            }
                        }
                        2 => {
                            s.rguards[g].as_ref().unwrap().clear();
                            s.guards[g].as_mut().unwrap().1.clear();
                        }
                        _ => {
                            let n = s.rguards[g].as_ref().unwrap().len();
                            let m = s.guards[g].as_ref().unwrap().1.len();
                            let e = s.rguards[g].as_ref().unwrap().is_empty();
                            if n != m || e != (m == 0) {
                                s.fail("guard_len", format!("orphan guard: real {} model {}", n, m), json!({"at_op": at, "guard": g}));
                            }
                        }
                    }
                    s.rep.bump("orphan_guard_ops", 1);
                    let _ = write!(s.trace, "O{}k{};", g, kind);
                }
                Op::NewHeap => {
                    if s.heap.is_none() {
                        let h: Heap<Node> = Heap::new();
                        h.set_gc_threshold(scn.initial_threshold as usize);
                        s.heap = Some(h);
                        s.heap_gen += 1;
                        s.slots_total = 0;
                        let _ = write!(s.trace, "N;");
                    }
                }
            }
            if scn.dense_checks && s.rep.failure.is_none() {
                s.check_contents(at);
            }
        }
        // teardown in a seeded-independent but fixed order: handles, guards, heap
        let stale = tsrun::verif::take_stale_derefs();
        if !stale.is_empty() && s.rep.failure.is_none() {
            s.fail(
                "stale_deref_by_harness",
                format!("{} stale derefs", stale.len()),
                json!({"first": format!("{:?}", stale[0])}),
            );
        }
        s.rhandles.clear();
        s.rguards.clear();
        s.heap = None;
        let c = tsrun::verif::counters();
        s.rep.nontrivial = (c.collections > 0 && reclaimed_total > 0) || heap_drops_with_survivors > 0;
        s.rep.trace_hash = crate::rng::hash_str(&s.trace);
        s.rep.bump("ops_executed", scn.ops.len() as u64);
        s.rep
    }
}

impl Sim {
    fn dense_or(&self, scn: &Scn) -> bool {
        scn.dense_checks
    }
}


// ───────────────────────────── memory stratum (worker processes) ─────────────────────────────

fn mem_scenario(seed: u64, i: usize) -> Scn {
    let sid = crate::rng::stream_id("C13/mem");
    let mut r = Rng::new(crate::rng::derive(seed, sid, i as u64));
    // only short histories here (long ones never drop the heap)
    let idx = if i % 500 == 499 { i + 1 } else { i };
    C13_MEM.generate(&mut r, idx, Tier::Quick)
}

/// Worker: executes scenarios [from, to) in this process; prints "S <i>" before and
/// "R <i> <hash> <nontrivial> <clause|-> <drops>" after each, so the parent knows the culprit if it dies.
pub fn memory_worker(seed: u64, from: usize, to: usize) {
    use std::io::Write;
    let out = std::io::stdout();
    for i in from..to {
        let scn = mem_scenario(seed, i);
        {
            let mut o = out.lock();
            let _ = writeln!(o, "S {}", i);
            let _ = o.flush();
        }
        let rep = C13_MEM.execute(&scn);
        let drops = rep.counters.get("heap_dropped_with_survivors").copied().unwrap_or(0);
        let stale = rep.counters.get("stale_handle_cloned").copied().unwrap_or(0) + rep.counters.get("stale_handle_dropped").copied().unwrap_or(0);
        let mut o = out.lock();
        let _ = writeln!(
            o,
            "R {} {:x} {} {} {} {}",
            i,
            rep.trace_hash,
            rep.nontrivial as u8,
            rep.failure.as_ref().map(|f| f.clause.clone()).unwrap_or_else(|| "-".into()),
            drops,
            stale
        );
        let _ = o.flush();
    }
}

/// Parent: run `n` heap-drop histories over `threads` worker processes (natively and, when an
/// ASan build of tsim exists, under AddressSanitizer). Returns failures with replayable scenarios.
pub fn memory_stratum(
    seed: u64,
    n: usize,
    threads: usize,
    cov: &mut std::collections::BTreeMap<String, Value>,
    assume: &mut Vec<String>,
    xs: &mut crate::framework::ExtraStats,
) -> Vec<(Failure, Value)> {
    let mut fails: Vec<(Failure, Value)> = Vec::new();
    let exe = std::env::current_exe().unwrap_or_default();
    let asan_exe = exe
        .parent()
        .and_then(|p| p.parent())
        .and_then(|p| p.parent())
        .map(|p| p.join("target-asan/x86_64-unknown-linux-gnu/release/tsim"));
    let mut variants: Vec<(&str, std::path::PathBuf, usize)> = vec![("native", exe.clone(), n)];
    if let Some(a) = asan_exe
        && a.exists()
    {
        variants.push(("asan", a, n / 2));
    } else {
        assume.push("no AddressSanitizer build of tsim found: the memory stratum ran natively only (a dead worker is still a violation)".into());
    }
    for (name, bin, count) in variants {
        let w = threads.max(1);
        let per = count.div_ceil(w);
        let mut children = Vec::new();
        for k in 0..w {
            let from = k * per;
            let to = ((k + 1) * per).min(count);
            if from >= to {
                break;
            }
            let c = std::process::Command::new(&bin)
                .args(["c13-worker", &seed.to_string(), &from.to_string(), &to.to_string()])
                .env("ASAN_OPTIONS", "detect_leaks=0:abort_on_error=0:exitcode=99")
                .stdout(std::process::Stdio::piped())
                .stderr(std::process::Stdio::piped())
                .spawn();
            if let Ok(c) = c {
                children.push((from, to, c));
            }
        }
        let mut done = 0u64;
        let mut drops = 0u64;
        let mut stale = 0u64;
        let mut distinct: std::collections::HashSet<String> = Default::default();
        for (from, to, c) in children {
            let Ok(o) = c.wait_with_output() else { continue };
            let stdout = String::from_utf8_lossy(&o.stdout).to_string();
            let mut last_started: Option<usize> = None;
            let mut last_done: Option<usize> = None;
            for l in stdout.lines() {
                let p: Vec<&str> = l.split(' ').collect();
                if p.first() == Some(&"S") {
                    last_started = p.get(1).and_then(|x| x.parse().ok());
                } else if p.first() == Some(&"R") {
                    last_done = p.get(1).and_then(|x| x.parse().ok());
                    done += 1;
                    if p.get(3) == Some(&"1") {
                        distinct.insert(p.get(2).unwrap_or(&"").to_string());
                    }
                    drops += p.get(5).and_then(|x| x.parse::<u64>().ok()).unwrap_or(0);
                    stale += p.get(6).and_then(|x| x.parse::<u64>().ok()).unwrap_or(0);
                    if let Some(cl) = p.get(4)
                        && *cl != "-"
                        && fails.len() < 3
                        && let Some(i) = last_done
                    {
                        let mut scn = mem_scenario(seed, i);
                        scn.isolated = true;
                        fails.push((
                            Failure::new(cl, format!("memory stratum ({}) scenario {}", name, i), json!({"variant": name, "index": i})),
                            serde_json::to_value(&scn).unwrap_or_default(),
                        ));
                    }
                }
            }
            if !o.status.success() && fails.len() < 3 {
                // the worker died: the culprit is the scenario it had started but not finished
                let culprit = match (last_started, last_done) {
                    (Some(s), Some(d)) if s != d => Some(s),
                    (Some(s), None) => Some(s),
                    _ => None,
                };
                let stderr = String::from_utf8_lossy(&o.stderr).to_string();
                let asan = stderr.contains("AddressSanitizer");
                let clause = if asan { "memory_error_reported_by_sanitizer" } else { "worker_process_died" };
                if let Some(i) = culprit {
                    let mut scn = mem_scenario(seed, i);
                    scn.isolated = true;
                    fails.push((
                        Failure::new(clause, format!("{} worker [{}..{}) died at scenario {}", name, from, to, i),
                            json!({"variant": name, "index": i, "stderr_excerpt": stderr.lines().filter(|l| l.contains("ERROR") || l.contains("SUMMARY")).take(3).collect::<Vec<_>>().join(" | ")})),
                        serde_json::to_value(&scn).unwrap_or_default(),
                    ));
                } else {
                    fails.push((
                        Failure::new("worker_process_died", format!("{} worker [{}..{}) died outside a scenario", name, from, to), json!({})),
                        json!({"ops": [], "initial_threshold": 0, "dense_checks": true, "isolated": true}),
                    ));
                }
            }
        }
        xs.evaluations += done;
        xs.distinct_nontrivial += distinct.len() as u64;
        *xs.counters.entry(format!("memory_stratum_{}_heap_drops_with_survivors", name)).or_insert(0) += drops;
        cov.insert(
            format!("memory_stratum_{}", name),
            json!({"histories": done, "distinct_nontrivial": distinct.len(), "heap_drops_with_survivors": drops, "stale_handle_clone_or_drop_ops": stale, "worker_processes": w}),
        );
    }
    fails
}
