//! C14 — Garbage is reclaimed: repeated work does not grow the heap.
//!
//! Conservation oracle in two forms. Across runs: the same self-contained program is run k
//! times on one interpreter (completing or dying of an uncaught error), with a collection after
//! each; the live-object count must not grow in each of the last four repetitions. Inside one
//! run: a loop whose body is the construct under test followed by a host hole; the simulated
//! host forces a collection at every suspension and records the live count, which must not
//! grow monotonically over the later iterations.

use crate::framework::{Check, Failure, RunReport, Tier};
use crate::host::{Answer, Driver, GcSched, new_interp};
use crate::proggen::{GenCfg, HoleVariant, Node};
use crate::progscn::{ProgCase, random_gc};
use crate::props::c11::{block_wrapped_source, plant_crash, run_to_end, strip_top_catch};
use crate::rng::{Rng, Tape};
use serde::{Deserialize, Serialize};
use serde_json::{Value, json};

#[derive(Clone, Debug, Serialize, Deserialize, PartialEq)]
pub enum Form {
    /// run the program `reps` times, collect after each
    AcrossRuns { reps: u32 },
    /// loop inside one run: body + host hole per iteration
    InsideRun { iterations: u32 },
}

#[derive(Clone, Debug, Serialize, Deserialize)]
pub struct Scn {
    pub case: ProgCase,
    pub form: Form,
    pub gc: GcSched,
    pub tape: Tape,
    pub fuel: u64,
    /// across-runs form only: run the program as it is (top-level declarations are global bindings
    /// that every repetition replaces) instead of wrapping it in a block
    #[serde(default)]
    pub unwrapped: bool,
    /// across-runs form only: before every repetition the host registers the internal module
    /// `lib:util` again (same specifier, same text), as a host does that hands per-run settings over
    #[serde(default)]
    pub reregister_lib: bool,
}

pub struct C14;

fn strictly_growing_tail(l: &[u64], n: usize) -> bool {
    if l.len() < n + 1 {
        return false;
    }
    let t = &l[l.len() - (n + 1)..];
    t.windows(2).all(|w| w[0] < w[1])
}

impl Check for C14 {
    type Scn = Scn;
    fn id(&self) -> &'static str {
        "C14"
    }
    fn rule(&self) -> String {
        "self-contained progGen programs (block-wrapped script, no global effect; cycles via object graphs, closures, settled promises, exhausted and abandoned generators, frames of failed calls via planted uncaught throws, host holes answered by the simulated host) in two forms: (a) run k in 6..12 times on one interpreter with collect() after each, GC schedule during the runs from the C02 space; (b) a loop of 8-12 iterations inside one run with a host hole per iteration, the host forcing a collection at every suspension. Oracle: live-object counts must not grow strictly over the last four observations. non-trivial = at least six observations were taken and the program allocated; distinct = distinct (program digest, form). Also: unwrapped repetition (top-level declarations with short and >64-byte names replaced by every run), the host registering lib:util again before every repetition, author-written corpus snippets (across runs and as the body of an inside-run loop). Second oracle (exactness): the live counts after the host collect() must equal those of the same history replayed with automatic collection off".into()
    }
    fn components(&self) -> Value {
        json!({"real": ["Interpreter (reused instance)", "BytecodeVM", "gc.rs", "builtins", "order ledger"], "stub": ["host", "providers", "collector schedule"], "not_run": ["module-mode programs (module environments are rooted forever by design)", "ffi"]})
    }
    fn assumptions(&self) -> Vec<String> {
        vec![
            "lazily filled caches that stabilise are not leaks: only strict growth over the last four observations is alarmed".into(),
            "module-mode programs are excluded on purpose: every module run roots a fresh module environment and namespace by design".into(),
        ]
    }

    fn generate(&self, rng: &mut Rng, _idx: usize, _tier: Tier) -> Scn {
        let inside = rng.chance(0.4);
        let heavy = !inside && rng.chance(0.03);
        let holes = if inside { 0 } else if rng.chance(0.4) { 1 + rng.below(2) } else { 0 };
        let mut cfg = GenCfg::swarm(rng, holes);
        cfg.size = 4 + rng.below(25);
        if !inside && rng.chance(0.3) {
            cfg.f_lib = true;
        }
        if inside {
            // KF-C14-3 (open): break/continue leaving a block scope leaks that scope until the run ends
            cfg.f_break = false;
            // KF-C14-4 (open): a generator that yields inside a block scope leaves that scope's guard behind
            cfg.f_gen = false;
        }
        let variant = if holes == 0 {
            HoleVariant::Sync
        } else if rng.chance(0.5) {
            HoleVariant::Order
        } else {
            HoleVariant::OrderDirect
        };
        let mut case = ProgCase::generate(rng, cfg, if inside { HoleVariant::OrderDirect } else { variant }, "v");
        let form = if inside {
            // wrap the body of main in a loop with a host hole per iteration
            let iterations = 8 + rng.below(5) as u32;
            loopify(&mut case.tree, iterations);
            for i in 0..iterations + 1 {
                case.answers.insert(format!("{}", 7000 + i), Answer::Value(json!(i)));
            }
            Form::InsideRun { iterations }
        } else {
            if rng.chance(0.35) {
                plant_crash(&mut case.tree, rng);
                strip_top_catch(&mut case.tree, "v");
            }
            Form::AcrossRuns { reps: 6 + rng.below(7) as u32 }
        };
        let gc = if inside {
            GcSched { force_at_suspend: true, ..GcSched::threshold(*rng.pick(&[0u32, 1, 3, 100])) }
        } else if heavy || rng.chance(0.5) {
            // (the heavy-garbage runs keep automatic collection off: the host's collect() after
            // each run is the one cycle that has to reclaim everything)
            GcSched::off()
        } else {
            random_gc(rng)
        };
        let unwrapped = !inside && rng.chance(0.3);
        if unwrapped {
            // top-level declarations of the program itself: global bindings that every repetition
            // replaces (short and very long names)
            let long = if rng.chance(0.6) { "_a_name_far_longer_than_sixty_four_bytes_as_generated_code_and_bdd_style_tests_have_them" } else { "" };
            let at = 3.min(case.tree.kids.len());
            case.tree.kids.insert(at, Node::leaf(format!(
                "const vtop{long}: any = [{{ t: 1 }}, {{ t: 2, l: [{{}}] }}]; let vcount{long}: number = 0; function vtopfn{long}(): any {{ vcount{long} += 1; return vtop{long}.length + vcount{long}; }} class VTop{long} {{ n: any = vtopfn{long}(); }} __log.push(\"top:\" + new VTop{long}().n);"
            )));
        }
        if !inside && rng.chance(0.1) {
            // every run dies while importing the always-failing internal source module lib:bad
            if let Some(first) = case.tree.kids.first_mut() {
                first.pre = format!("import {{ big as __big }} from \"lib:bad\";\n{}", first.pre);
            }
        }
        if heavy {
            // far more garbage per run than any batch size a collector might work in: about 20 000
            // short-lived objects, collected only by the host's collect() when automatic collection is off
            let at = 3.min(case.tree.kids.len());
            case.tree.kids.insert(at, Node::leaf("{ let __acc: number = 0; for (let i = 0; i < 20000; i++) { const t: any = { i: i }; __acc += t.i & 1; } __log.push(\"heavy:\" + __acc); }"));
        }
        let reregister_lib = !inside && rng.chance(0.3);
        Scn { case, form, gc, tape: Tape::random(rng, 8), fuel: 400_000, unwrapped, reregister_lib }
    }

    fn generate_stream(&self, stream: &str, rng: &mut Rng, idx: usize, tier: Tier) -> Scn {
        if stream != "corpus" {
            return self.generate(rng, idx, tier);
        }
        // author-written snippets without deliberate global effects, block-wrapped, repeated on one interpreter
        let c = crate::corpus::corpus();
        let list: Vec<&crate::corpus::Entry> = c.snippets.iter().filter(|e| e.self_contained()).collect();
        let e = list[idx % list.len().max(1)];
        // inside-run form: the snippet is the body of a loop with a host hole per iteration.
        // KF-C14-3 / KF-C14-4 (open) quarantine: no break/continue, no generators.
        let quarantined = ["break", "continue", "function*", "function *", "yield", "*[", "* ["].iter().any(|w| e.src.contains(w));
        if !quarantined && rng.chance(0.5) {
            let iterations = 8 + rng.below(5) as u32;
            let mut case = e.to_case();
            let body: Vec<Node> = case.tree.kids.split_off(3);
            case.tree.kids[0] = Node::leaf("import { order as __h } from \"tsrun:host\";");
            case.tree.kids.push(Node::block(
                format!("for (let __it = 0; __it < {}; __it++) {{", iterations),
                vec![Node::block("{", body, "}"), Node::leaf("await __h(7000 + __it);")],
                "}",
            ));
            case.tree.kids.push(Node::leaf("\"looped\""));
            case.variant = HoleVariant::OrderDirect;
            for i in 0..iterations + 1 {
                case.answers.insert(format!("{}", 7000 + i), Answer::Value(json!(i)));
            }
            let gc = GcSched { force_at_suspend: true, ..GcSched::threshold(*rng.pick(&[0u32, 1, 3, 100])) };
            return Scn { case, form: Form::InsideRun { iterations }, gc, tape: Tape::random(rng, 8), fuel: 600_000, unwrapped: false, reregister_lib: false };
        }
        let gc = if rng.chance(0.5) { GcSched::off() } else { random_gc(rng) };
        Scn { case: e.to_case(), form: Form::AcrossRuns { reps: 6 + rng.below(7) as u32 }, gc, tape: Tape::random(rng, 8), fuel: 400_000, unwrapped: rng.chance(0.3), reregister_lib: false }
    }

    fn shrink(&self, scn: &Scn) -> Vec<Scn> {
        let mut out = Vec::new();
        if !scn.gc.is_off() && matches!(scn.form, Form::AcrossRuns { .. }) {
            out.push(Scn { gc: GcSched::off(), ..scn.clone() });
        }
        if !scn.tape.v.is_empty() {
            out.push(Scn { tape: Tape::from_vec(vec![]), ..scn.clone() });
        }
        if scn.unwrapped {
            out.push(Scn { unwrapped: false, ..scn.clone() });
        }
        if scn.reregister_lib {
            out.push(Scn { reregister_lib: false, ..scn.clone() });
        }
        for c in scn.case.shrink_tree() {
            out.push(Scn { case: c, ..scn.clone() });
        }
        out
    }

    fn execute(&self, scn: &Scn) -> RunReport {
        let mut rep = RunReport::default();
        tsrun::verif::reset();
        let mut h = new_interp(0, 1);
        let mut lives: Vec<u64> = Vec::new();
        let mut results: Vec<String> = Vec::new();
        match scn.form {
            Form::AcrossRuns { reps } => {
                for _ in 0..reps {
                    if scn.reregister_lib {
                        h.interp.register_internal_module(tsrun::InternalModule::source("lib:util".to_string(), crate::host::LIB_UTIL.to_string()));
                    }
                    let mut spec = scn.case.spec(Driver::Step, scn.gc.clone(), scn.tape.clone(), scn.fuel);
                    if !scn.unwrapped {
                        spec.source = block_wrapped_source(&scn.case);
                    }
                    spec.path = None;
                    let out = run_to_end(&mut h, spec);
                    results.push(out.result.chars().take(60).collect());
                    h.interp.collect();
                    lives.push(h.interp.gc_stats().live_objects as u64);
                }
                if results.iter().any(|r| r.starts_with("error:")) {
                    rep.bump("histories_with_failing_runs", 1);
                }
                // exactness: what survives the host's collect() after a run is the reachable set,
                // which cannot depend on WHEN collections ran during the run. Replay the history
                // on a second interpreter with automatic collection off and compare the counts.
                if !scn.gc.is_off() {
                    tsrun::verif::set_gc_decider(None);
                    let mut h2 = new_interp(0, 1);
                    let mut lives_off: Vec<u64> = Vec::new();
                    for _ in 0..reps {
                        if scn.reregister_lib {
                            h2.interp.register_internal_module(tsrun::InternalModule::source("lib:util".to_string(), crate::host::LIB_UTIL.to_string()));
                        }
                        let mut spec = scn.case.spec(Driver::Step, GcSched::off(), scn.tape.clone(), scn.fuel);
                        if !scn.unwrapped {
                            spec.source = block_wrapped_source(&scn.case);
                        }
                        spec.path = None;
                        let _ = run_to_end(&mut h2, spec);
                        h2.interp.collect();
                        lives_off.push(h2.interp.gc_stats().live_objects as u64);
                    }
                    rep.bump("schedule_independence_comparisons", 1);
                    if lives_off != lives && !results.iter().any(|r| r.starts_with("error:SyntaxError") || r == "fuel") {
                        rep.fail(Failure::new(
                            "live_objects_after_collect_depend_on_collection_schedule",
                            format!("{:?} vs {:?}", &lives[..lives.len().min(4)], &lives_off[..lives_off.len().min(4)]),
                            json!({"with_schedule": lives, "collection_off_during_runs": lives_off, "schedule": scn.gc, "results": results, "tags": scn.case.tags}),
                        ));
                    }
                }
            }
            Form::InsideRun { .. } => {
                let mut spec = scn.case.spec(Driver::Step, scn.gc.clone(), scn.tape.clone(), scn.fuel);
                spec.source = block_wrapped_source(&scn.case);
                spec.path = None;
                let out = run_to_end(&mut h, spec);
                results.push(out.result.chars().take(60).collect());
                lives = out.live_at_suspend.clone();
                rep.bump("inside_run_observations", lives.len() as u64);
            }
        }
        rep.sim_instructions = tsrun::verif::instructions();
        let c = tsrun::verif::counters();
        rep.bump("collections", c.collections);
        rep.bump("observations", lives.len() as u64);
        let syntax = results.iter().any(|r| r.starts_with("error:SyntaxError"));
        if strictly_growing_tail(&lives, 4) && !syntax {
            let clause = match scn.form {
                Form::AcrossRuns { .. } => "live_objects_grow_across_runs",
                Form::InsideRun { .. } => "live_objects_grow_inside_run",
            };
            let deltas: Vec<i64> = lives.windows(2).map(|w| w[1] as i64 - w[0] as i64).collect();
            rep.fail(Failure::new(
                clause,
                format!("deltas {:?}", &deltas[deltas.len().saturating_sub(4)..]),
                json!({"live_after_each": lives, "deltas": deltas, "results": results, "tags": scn.case.tags}),
            ));
        }
        for t in &scn.case.tags {
            rep.bump(&format!("tag_{}", t), 1);
        }
        rep.nontrivial = lives.len() >= 6 && c.allocs > 0 && !syntax;
        rep.trace_hash = crate::rng::hash_str(&format!("{:?}|{:?}|{:?}|{:x}", results, scn.form, lives.len(), crate::rng::hash_str(&scn.case.source())));
        rep
    }
}

/// Turn `async function vmain() { S... return X }` into a loop over S with a host hole per iteration.
fn loopify(tree: &mut Node, iterations: u32) {
    for k in tree.kids.iter_mut() {
        if k.pre.starts_with("async function vmain") {
            let mut body: Vec<Node> = std::mem::take(&mut k.kids);
            let ret = body.pop();
            let mut inner = body;
            inner.push(Node::leaf("await __h(7000 + __it);"));
            let lp = Node::block(format!("for (let __it = 0; __it < {}; __it++) {{", iterations), inner, "}");
            k.kids.push(lp);
            let _ = ret;
            k.kids.push(Node::leaf("return \"looped\";"));
        }
    }
}
