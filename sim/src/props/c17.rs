//! C17 — The C API is memory-safe and total for every call sequence.
//!
//! Histories of up to 200 calls over the exported `tsrun_*` functions, generated from a handle
//! table (live values by kind, survivors of a freed context, NULL, fresh primitives incl. invalid
//! UTF-8 and embedded NUL). Fault / schedule kinds: context freed with live handles and pending
//! orders, order responses released right after being submitted, collections injected (H2) between
//! and inside calls, native callbacks that re-enter the API / return NULL / an error / their own
//! argument, duplicate handles outliving the original. The harness never breaks the header's
//! contract (no double free, no use of a freed handle); NULL and wrong-kind arguments are legal.
//! Every history runs in a worker process (natively and under AddressSanitizer): the worker's
//! survival is the memory oracle; totality, string validity and a JSON model of host-built
//! values are checked inline.

use crate::capi::*;
use crate::framework::{Check, ExtraStats, Failure, RunReport, Tier};
use crate::rng::{Rng, hash_str};
use serde::{Deserialize, Serialize};
use serde_json::{Value, json};
use std::ffi::{CString, c_char, c_void};
use std::ptr;

#[derive(Clone, Debug, Serialize, Deserialize, PartialEq)]
pub enum Op {
    NewCtx,
    FreeCtx(u8),
    Prepare(u8, u8),
    Run(u8),
    Steps(u8, u16),
    MkPrim(u8, u8),
    MkString(u8, u8),
    MkObject(u8),
    MkArray(u8),
    JsonParse(u8, u8),
    Inspect(u16),
    Get(u8, u16, u8),
    Set(u8, u16, u8, u16),
    Has(u8, u16, u8),
    Delete(u8, u16, u8),
    Keys(u8, u16),
    ArrGet(u8, u16, u8),
    ArrSet(u8, u16, u8, u16),
    ArrPush(u8, u16, u16),
    Stringify(u8, u16),
    Dup(u8, u16),
    Free(u16),
    Call(u8, u16, u16, u8),
    CallMethod(u8, u16, u8),
    SetGlobal(u8, u8, u16),
    GetGlobal(u8, u8),
    NativeFn(u8, u8),
    GcStats(u8),
    GetExport(u8, u8),
    ExportNames(u8),
    ProvideModule(u8, u8),
    NullCalls(u8),
    /// answer pending orders of ctx: how (0 value handle, 1 error, 2 promise), release the
    /// response handle immediately, then churn allocations
    Answer(u8, u8, u16, bool, u8),
    SettlePromise(u8, u8),
    /// take a child of a modelled container (tsrun_get / tsrun_array_get), release the parent
    /// handle, churn allocations so that collections run, then read the child again
    DetachChild(u8, u16, u8, u8),
    /// `Object(x)` / a method that returns its receiver: the call result is a second handle to an
    /// existing object; the original handle is released, allocation churn follows, and the result
    /// handle alone must keep the object alive (ctx, container selector, via method, churn)
    DetachAlias(u8, u16, bool, u8),
    /// a native function whose callback writes a property on its own function object, called
    /// through tsrun_call (ctx, extra arguments)
    CallSelfWriter(u8, u8),
    /// host function A (calls its first argument through tsrun_call) applied to host function B:
    /// directly through tsrun_call, or from a script through `[B].map(A)`-like natives (ctx, how)
    CallNativeWithNative(u8, u8),
    /// A self-contained episode in a context of its own (created and freed inside the op):
    /// kind 0 - after `pad` throwaway objects, register an internal module whose exports are two
    /// object VALUES and `n` functions, import it from a script and read the values back;
    /// kind 1 - install a console callback and log texts that contain U+0000 and non-ASCII
    /// characters: the callback must receive exactly the bytes of the text (pointer + length).
    Episode(u8, u8, u8),
}

#[derive(Clone, Debug, Serialize, Deserialize)]
pub struct Scn {
    pub ops: Vec<Op>,
    /// collections injected with probability pm/1000 per allocation (H2), seed
    pub gc_pm: u32,
    pub gc_seed: u64,
    #[serde(default)]
    pub isolated: bool,
}

pub struct C17;

const KEYS: [&str; 6] = ["a", "b", "nested", "k", "length", "x y"];
const DOCS: [&str; 11] = [
    r#"[{"n":42,"in":{"m":[1,2]}},{"n":43},[7,{"q":8}]]"#,
    r#"{"child":{"n":1,"deep":{"x":[1,{"y":2}]}},"arr":[{"e":1},{"e":2}]}"#,
    r#"[[{"z":1}],[{"z":2}]]"#,
    r#"{"answer":42,"nested":{"k":"v"}}"#,
    r#"[1,2,{"b":{"c":1}}]"#,
    r#"{"a":[true,null,"s"],"b":-1.5}"#,
    r#""just a string""#,
    r#"{"broken": "#,
    r#"[]"#,
    r#"{"k":1}"#,
    r#"{"deep":{"deep":{"deep":[1,[2,[3]]]}}}"#,
];
const PROGRAMS: [(&str, Option<&str>); 12] = [
    ("JSON.stringify(globalThis.hv === undefined ? null : globalThis.hv)", None),
    ("import { order } from \"tsrun:host\"; const r: any = await order({ k: 1 }); JSON.stringify(r === undefined ? null : r)", None),
    ("import { order } from \"tsrun:host\"; const a: any = await order({ k: 1 }); const junk: any[] = []; for (let i = 0; i < 40; i++) { junk.push({ i: i, s: \"j\" + i }); } const b: any = await order({ k: 2 }); JSON.stringify([a === undefined ? null : a, b === undefined ? null : b])", None),
    ("typeof globalThis.cb === \"function\" ? JSON.stringify([globalThis.cb(1, \"x\", { a: 1 })]) : \"nocb\"", None),
    ("let r: any; try { r = typeof globalThis.cb === \"function\" ? [1, 2].map(globalThis.cb) : \"nocb\"; } catch (e: any) { r = \"caught:\" + String(e && e.message !== undefined ? e.message : e); } JSON.stringify(r === undefined ? null : r)", None),
    ("export const x: number = 5; export let y: any = { z: [1, 2] }; x", Some("/mod/main.ts")),
    ("let x = ;", None),
    ("function f(): any { throw new TypeError(\"boom\"); } f();", None),
    ("import { x } from \"./dep.ts\"; x + 1", Some("/mod/imp.ts")),
    ("globalThis.keep = { big: [1, 2, 3], s: \"kept\" }; for (let i = 0; i < 30; i++) { const t = { i: i }; } JSON.stringify(globalThis.keep)", None),    ("const sy = Symbol(\"t\"); globalThis.symobj = { a: 1, [sy]: 2, b: { [Symbol.iterator]: 3, c: 4 } }; globalThis.symonly = { [sy]: 1 }; Object.keys(globalThis.symobj).join(\",\")", None),
    ("function g(): any { throw new RangeError(\"x\" + \"é\".repeat(150) + \"日\".repeat(40)); } g();", None),
];

/// Further programs, selected by Prepare(_, p) with p >= 240 (the first table keeps its indices so
/// that stored witnesses keep their meaning). Index in `prepared` = 100 + position.
const PROGRAMS_EXTRA: [(&str, Option<&str>); 2] = [
    // a host function called directly (during run/step) and from a promise handler that runs while
    // the host settles the promise: both calls must behave alike
    ("import { order } from \"tsrun:host\"; const f: any = globalThis.cb; const call = (): string => { try { return typeof f === \"function\" ? \"r:\" + JSON.stringify([f(1, \"x\", { a: 1 })]) : \"nocb\"; } catch (e: any) { return \"threw:\" + String(e && e.message !== undefined ? e.message : e); } }; const direct: string = call(); const p: any = order({ k: 1 }); let seen: string = \"handler did not run\"; if (p && typeof p.then === \"function\") { p.then((v: any) => { seen = call(); }); const r: any = await p; seen === direct ? \"same\" : \"differ:\" + direct + \" / \" + seen } else { \"same (order answered with a plain value)\" }", None),
    ("import { order } from \"tsrun:host\"; const ms: any[] = [{ k: 1 }, { k: 2 }].map(order); const junk: any[] = []; for (let i = 0; i < 30; i++) { junk.push({ i: i }); } const out: any[] = []; for (const m of ms) { out.push(await m); } JSON.stringify(out.map((x: any) => x === undefined ? null : x))", None),
];

// ───────────── a host regular-expression engine (tsrun_set_regexp_provider) ─────────────
// ABI as in tsrun.h. The engine knows two pattern shapes: `c*` (zero or more of one character)
// and a literal. It checks what the library hands it: pointers non-null, start_pos <= input_len,
// every compiled handle freed exactly once.
#[repr(C)]
struct HostRegexCapture {
    start: isize,
    end: isize,
}
#[repr(C)]
struct HostRegexMatch {
    start: usize,
    end: usize,
    captures: *mut HostRegexCapture,
    capture_count: usize,
}
#[repr(C)]
struct HostRegexCallbacks {
    compile: extern "C" fn(*mut c_void, *const c_char, *const c_char, *mut *const c_char) -> *mut c_void,
    is_match: extern "C" fn(*mut c_void, *mut c_void, *const c_char, usize, *mut *const c_char) -> i32,
    find: extern "C" fn(*mut c_void, *mut c_void, *const c_char, usize, usize, *mut HostRegexMatch, *mut *const c_char) -> i32,
    free: extern "C" fn(*mut c_void, *mut c_void),
    free_captures: Option<extern "C" fn(*mut c_void, *mut HostRegexCapture, usize)>,
    userdata: *mut c_void,
}
unsafe extern "C" {
    fn tsrun_set_regexp_provider(ctx: *mut TsRunContext, callbacks: *const HostRegexCallbacks) -> TsRunResult;
}
thread_local! {
    /// (contract violations seen by the engine, handles compiled, handles freed)
    static HOST_REGEX: std::cell::RefCell<(Vec<String>, u64, u64)> = const { std::cell::RefCell::new((Vec::new(), 0, 0)) };
}
fn host_regex_note(msg: String) {
    HOST_REGEX.with(|h| {
        let mut h = h.borrow_mut();
        if h.0.len() < 8 {
            h.0.push(msg);
        }
    });
}
extern "C" fn hre_compile(_ud: *mut c_void, pattern: *const c_char, _flags: *const c_char, error_out: *mut *const c_char) -> *mut c_void {
    let Some(Ok(p)) = (unsafe { read_cstr(pattern) }) else {
        if !error_out.is_null() {
            unsafe { *error_out = c"pattern is not a string".as_ptr() };
        }
        return ptr::null_mut();
    };
    HOST_REGEX.with(|h| h.borrow_mut().1 += 1);
    Box::into_raw(Box::new(p)) as *mut c_void
}
/// match of the pattern at or after `from` in `input`: (start, end)
fn hre_search(pat: &str, input: &[u8], from: usize) -> Option<(usize, usize)> {
    let pb = pat.as_bytes();
    if pb.len() == 2 && pb[1] == b'*' {
        let mut e = from;
        while e < input.len() && input[e] == pb[0] {
            e += 1;
        }
        return Some((from, e));
    }
    if pb.is_empty() {
        return Some((from, from));
    }
    (from..=input.len().saturating_sub(pb.len())).find(|i| input.len() >= pb.len() && &input[*i..*i + pb.len()] == pb).map(|i| (i, i + pb.len()))
}
extern "C" fn hre_is_match(_ud: *mut c_void, handle: *mut c_void, input: *const c_char, len: usize, _e: *mut *const c_char) -> i32 {
    if handle.is_null() || (input.is_null() && len > 0) {
        host_regex_note("is_match called with a NULL handle or input".into());
        return -1;
    }
    let pat = unsafe { &*(handle as *const String) };
    let bytes = if len == 0 { &[][..] } else { unsafe { std::slice::from_raw_parts(input as *const u8, len) } };
    hre_search(pat, bytes, 0).is_some() as i32
}
extern "C" fn hre_find(_ud: *mut c_void, handle: *mut c_void, input: *const c_char, len: usize, start_pos: usize, out: *mut HostRegexMatch, _e: *mut *const c_char) -> i32 {
    if handle.is_null() || out.is_null() || (input.is_null() && len > 0) {
        host_regex_note("find called with a NULL handle, input or match_out".into());
        return -1;
    }
    if start_pos > len {
        // a C engine would now compute input + start_pos and input_len - start_pos
        host_regex_note(format!("find asked to search at start_pos {} beyond input_len {}", start_pos, len));
        return 0;
    }
    let pat = unsafe { &*(handle as *const String) };
    let bytes = if len == 0 { &[][..] } else { unsafe { std::slice::from_raw_parts(input as *const u8, len) } };
    match hre_search(pat, bytes, start_pos) {
        Some((s, e)) => {
            unsafe {
                (*out).start = s;
                (*out).end = e;
                (*out).captures = ptr::null_mut();
                (*out).capture_count = 0;
            }
            1
        }
        None => 0,
    }
}
extern "C" fn hre_free(_ud: *mut c_void, handle: *mut c_void) {
    if handle.is_null() {
        host_regex_note("free called with NULL".into());
        return;
    }
    HOST_REGEX.with(|h| h.borrow_mut().2 += 1);
    drop(unsafe { Box::from_raw(handle as *mut String) });
}

#[derive(Clone)]
struct H {
    ptr: *mut TsRunValue,
    ctx: usize,
    freed: bool,
    /// JSON model of the value when it was built through the API (None = unknown / not modelled)
    model: Option<Value>,
}

struct CtxState {
    ptr: *mut TsRunContext,
    freed: bool,
    /// (order id, payload handle index not tracked) pending orders seen and not yet answered
    unanswered: Vec<u64>,
    /// (order id, the `k` of its payload `{"k": N}`) for every order reported since the last prepare
    order_keys: Vec<(u64, i64)>,
    /// payload handles of every order this context ever reported ("owned by context": the host
    /// never frees them, and may look at them for as long as the context lives)
    payloads: Vec<*mut TsRunValue>,
    promises: Vec<(usize, bool, u64)>, // handle index of host promise, settled, order id
    /// what the script must see for answered orders: order id -> model
    expected_answers: Vec<(u64, Value)>,
    last_error: *const c_char,
    last_error_text: Option<String>,
    prepared: Option<usize>,
    global_hv: Option<Value>,
    global_hv_unknown: bool,
    has_cb: bool,
    finished_value: Option<String>,
}

/// What the host answered to the (first) order whose payload was `{"k": key}`.
fn answer_for(st: &CtxState, key: i64) -> Option<Value> {
    let id = st.order_keys.iter().find(|(_, k)| *k == key).map(|(id, _)| *id)?;
    st.expected_answers.iter().find(|(i, _)| *i == id).map(|(_, m)| m.clone())
}

struct Exec<'a> {
    /// response handles the host keeps but never passes to another call (unaliased by construction)
    private: Vec<*mut TsRunValue>,
    rep: &'a mut RunReport,
    ctxs: Vec<CtxState>,
    hs: Vec<H>,
    trace: String,
    keep_c: Vec<CString>,
}

thread_local! {
    static CB_MODE: std::cell::Cell<u8> = const { std::cell::Cell::new(0) };
    /// handle of the function the host is calling right now (for callbacks that write to their
    /// own function object, e.g. a call counter)
    static SELF_FN: std::cell::Cell<*mut TsRunValue> = const { std::cell::Cell::new(ptr::null_mut()) };
}

/// Native callback used by histories. userdata encodes the behaviour.
extern "C" fn native_cb(
    ctx: *mut TsRunContext,
    this_arg: *mut TsRunValue,
    args: *mut *mut TsRunValue,
    argc: usize,
    userdata: *mut c_void,
    error_out: *mut *const c_char,
) -> *mut TsRunValue {
    let mode = userdata as usize as u8;
    unsafe {
        // a callback whose own API call fails and that forwards the context's error text (valid
        // until the next tsrun_* call, i.e. long enough for the trampoline to read it)
        if mode == 248 || mode == 249 {
            let r = if mode == 248 { tsrun_json_parse(ctx, c"{\"broken\": ".as_ptr()) } else { tsrun_get_global(ctx, ptr::null()) };
            if r.value.is_null() && !r.error.is_null() && !error_out.is_null() {
                *error_out = r.error;
                return ptr::null_mut();
            }
            return r.value;
        }
        // identity-style callbacks: hand back one of the handles that were passed in
        if mode >= 250 {
            return if mode % 2 == 0 && argc > 0 && !args.is_null() { *args.add((mode as usize / 2) % argc) } else { this_arg };
        }
        match mode % 8 {
            7 => {
                // call the first argument (possibly another host function) through the API
                if argc > 0 && !args.is_null() && tsrun_is_function(*args) {
                    let saved = SELF_FN.with(|c| c.replace(ptr::null_mut()));
                    let r = tsrun_call(ctx, *args, ptr::null_mut(), ptr::null_mut(), 0);
                    SELF_FN.with(|c| c.set(saved));
                    if r.value.is_null() && !error_out.is_null() {
                        *error_out = c"inner call failed".as_ptr();
                    }
                    r.value
                } else {
                    tsrun_number(ctx, -1.0)
                }
            }
            6 => {
                // keep a call counter on the function object that is being called
                let me = SELF_FN.with(|c| c.get());
                let n = tsrun_number(ctx, 1.0 + argc as f64);
                if !me.is_null() && tsrun_is_function(me) {
                    tsrun_set(ctx, me, c"calls".as_ptr(), n);
                }
                n
            }
            0 => ptr::null_mut(), // returns NULL (undefined)
            1 => {
                if !error_out.is_null() {
                    *error_out = c"callback failed".as_ptr();
                }
                ptr::null_mut()
            }
            2 => {
                // return a duplicate of its own first argument (callee owns the returned handle)
                if argc > 0 && !args.is_null() { tsrun_value_dup(ctx, *args) } else { tsrun_value_dup(ctx, this_arg) }
            }
            3 => {
                // re-enter the API: build an object from the arguments
                let o = tsrun_object_new(ctx);
                if o.value.is_null() {
                    return ptr::null_mut();
                }
                for i in 0..argc.min(3) {
                    let key = CString::new(format!("arg{}", i)).unwrap_or_default();
                    tsrun_set(ctx, o.value, key.as_ptr(), *args.add(i));
                }
                let parsed = tsrun_json_parse(ctx, c"{\"from\":\"callback\",\"list\":[1,2,3]}".as_ptr());
                if !parsed.value.is_null() {
                    tsrun_set(ctx, o.value, c"parsed".as_ptr(), parsed.value);
                    tsrun_value_free(parsed.value);
                }
                let n = tsrun_number(ctx, argc as f64);
                tsrun_set(ctx, o.value, c"argc".as_ptr(), n);
                tsrun_value_free(n);
                o.value
            }
            4 => {
                // re-enter: read a property of the first argument and return it
                if argc > 2 && !args.is_null() {
                    let r = tsrun_get(ctx, *args.add(2), c"a".as_ptr());
                    r.value
                } else {
                    tsrun_number(ctx, 7.0)
                }
            }
            _ => {
                // create a pending order from inside a callback
                let payload = tsrun_json_parse(ctx, c"{\"k\":77}".as_ptr());
                let mut id = 0u64;
                let r = tsrun_create_pending_order(ctx, payload.value, &mut id);
                if !payload.value.is_null() {
                    tsrun_value_free(payload.value);
                }
                r.value
            }
        }
    }
}

impl<'a> Exec<'a> {
    fn fail(&mut self, clause: &str, obs: String, detail: Value) {
        self.rep.fail(Failure::new(clause, obs, detail));
    }
    fn c(&mut self, s: &str) -> *const c_char {
        self.keep_c.push(cs(s));
        self.keep_c.last().map(|c| c.as_ptr()).unwrap_or(ptr::null())
    }
    fn live_ctx(&self, i: u8) -> Option<usize> {
        let live: Vec<usize> = (0..self.ctxs.len()).filter(|k| !self.ctxs[*k].freed).collect();
        if live.is_empty() { None } else { Some(live[i as usize % live.len()]) }
    }
    /// A handle index legal to PASS to the API for ctx `c`: a live handle of that context, or
    /// None (NULL).
    fn pick(&self, c: usize, i: u16) -> Option<usize> {
        let cands: Vec<usize> = (0..self.hs.len()).filter(|k| !self.hs[*k].freed && self.hs[*k].ctx == c && !self.ctxs[c].freed).collect();
        if cands.is_empty() || i % 9 == 8 {
            None
        } else {
            Some(cands[i as usize % cands.len()])
        }
    }
    fn ptr_of(&self, h: Option<usize>) -> *mut TsRunValue {
        h.map(|i| self.hs[i].ptr).unwrap_or(ptr::null_mut())
    }
    fn push_handle(&mut self, p: *mut TsRunValue, ctx: usize, model: Option<Value>) -> Option<usize> {
        if p.is_null() {
            return None;
        }
        self.hs.push(H { ptr: p, ctx, freed: false, model });
        Some(self.hs.len() - 1)
    }
    /// Check an error string returned for ctx `c`: valid now, and remembered so that it can be
    /// re-read just before the next call on the same context.
    fn note_error(&mut self, c: usize, e: *const c_char, what: &str) {
        if e.is_null() {
            return;
        }
        match unsafe { read_cstr(e) } {
            Some(Ok(s)) => {
                self.ctxs[c].last_error = e;
                self.ctxs[c].last_error_text = Some(s);
            }
            Some(Err(m)) => self.fail("returned_string_not_valid_utf8", m, json!({"call": what})),
            None => {}
        }
    }
    /// Before the next call on ctx `c`: the previous error string must still read the same.
    fn recheck_error(&mut self, c: usize) {
        let e = self.ctxs[c].last_error;
        if e.is_null() {
            return;
        }
        let now = unsafe { read_cstr(e) };
        let was = self.ctxs[c].last_error_text.clone();
        if let (Some(Ok(n)), Some(w)) = (now, was)
            && n != w
        {
            self.fail("error_string_changed_within_its_lifetime", n.clone(), json!({"was": w, "now": n}));
        }
        self.ctxs[c].last_error = ptr::null();
        self.ctxs[c].last_error_text = None;
    }
    /// The lifetime of a remembered error string ended (another call was made on its context).
    fn forget_error(&mut self, c: usize) {
        self.ctxs[c].last_error = ptr::null();
        self.ctxs[c].last_error_text = None;
    }
    fn value_result(&mut self, c: usize, r: TsRunValueResult, what: &str, expect_fail: bool) -> *mut TsRunValue {
        self.forget_error(c);
        if r.value.is_null() && r.error.is_null() {
            self.fail("result_has_neither_value_nor_error", what.to_string(), json!({"call": what}));
        }
        if !r.value.is_null() && !r.error.is_null() {
            self.fail("result_has_both_value_and_error", what.to_string(), json!({"call": what}));
        }
        if expect_fail && !r.value.is_null() {
            self.fail("misuse_not_reported", what.to_string(), json!({"call": what}));
        }
        self.note_error(c, r.error, what);
        r.value
    }
    fn unit_result(&mut self, c: usize, r: TsRunResult, what: &str, expect_fail: bool) -> bool {
        self.forget_error(c);
        if !r.ok && r.error.is_null() {
            self.fail("failure_without_error_message", what.to_string(), json!({"call": what}));
        }
        if r.ok && !r.error.is_null() {
            self.fail("success_with_error_message", what.to_string(), json!({"call": what}));
        }
        if expect_fail && r.ok {
            self.fail("misuse_not_reported", what.to_string(), json!({"call": what}));
        }
        self.note_error(c, r.error, what);
        r.ok
    }
    /// A mutation went through handle `through` in context `c`: every other modelled container of
    /// that context may alias or contain the mutated object, so their models are dropped; a
    /// container installed as the global `hv` may have changed too.
    fn invalidate_after_mutation(&mut self, c: usize, through: usize) {
        for (i, h) in self.hs.iter_mut().enumerate() {
            if i != through && h.ctx == c && h.model.as_ref().map(|m| m.is_object() || m.is_array()).unwrap_or(false) {
                h.model = None;
            }
        }
        if self.ctxs[c].global_hv.as_ref().map(|m| m.is_object() || m.is_array()).unwrap_or(false) {
            self.ctxs[c].global_hv_unknown = true;
        }
    }

    fn stringify(&mut self, c: usize, p: *mut TsRunValue) -> Option<String> {
        let j = unsafe { tsrun_json_stringify(self.ctxs[c].ptr, p) };
        if j.is_null() {
            return None;
        }
        let r = unsafe { read_cstr(j) };
        unsafe { tsrun_free_string(j) };
        match r {
            Some(Ok(s)) => Some(s),
            Some(Err(m)) => {
                self.fail("returned_string_not_valid_utf8", m, json!({"call": "tsrun_json_stringify"}));
                None
            }
            None => None,
        }
    }
    fn check_model(&mut self, c: usize, hi: usize, what: &str) {
        let Some(m) = self.hs[hi].model.clone() else { return };
        let p = self.hs[hi].ptr;
        let Some(s) = self.stringify(c, p) else {
            if !m.is_null() {
                // undefined stringifies to NULL; everything modelled is JSON-able
                self.fail("host_value_unreadable", what.to_string(), json!({"model": m}));
            }
            return;
        };
        match serde_json::from_str::<Value>(&s) {
            Ok(v) if v == m => {}
            Ok(v) => self.fail("host_value_differs_from_what_the_host_wrote", s.chars().take(200).collect(), json!({"model": m, "observed": v, "at": what})),
            Err(_) => self.fail("stringify_output_not_json", s.chars().take(200).collect(), json!({"at": what})),
        }
    }

    fn handle_step_result(&mut self, c: usize, res: &mut TsRunStepResult) {
        unsafe {
            match res.status {
                TsRunStepStatus::Complete => {
                    let shown = show_handle(self.ctxs[c].ptr, res.value);
                    self.trace.push_str(&format!("complete:{};", shown.chars().take(60).collect::<String>()));
                    if shown.contains("Unknown error") {
                        self.fail("callback_error_text_lost", shown.chars().take(160).collect(), json!({"value": shown}));
                    }
                    // script-visible contents of host values
                    if let Some(pi) = self.ctxs[c].prepared {
                        let st = &self.ctxs[c];
                        let expected: Option<String> = match pi {
                            0 if !st.global_hv_unknown => Some(format!("s:{}", serde_json::to_string(&st.global_hv.clone().unwrap_or(Value::Null)).unwrap_or_default())),
                            // (the answer that counts is the one to the order the PROGRAM issued, payload
                            // {k:1} / {k:2}: a host function called before the run may have issued others)
                            1 => answer_for(st, 1).map(|m| format!("s:{}", serde_json::to_string(&m).unwrap_or_default())),
                            2 => match (answer_for(st, 1), answer_for(st, 2)) {
                                (Some(a), Some(b)) => Some(format!("s:{}", serde_json::to_string(&json!([a, b])).unwrap_or_default())),
                                _ => None,
                            },
                            101 => match (answer_for(st, 1), answer_for(st, 2)) {
                                (Some(a), Some(b)) => Some(format!("s:{}", serde_json::to_string(&json!([a, b])).unwrap_or_default())),
                                _ => None,
                            },
                            _ => None,
                        };
                        if pi == 100 && !shown.starts_with("s:same") {
                            self.fail(
                                "host_function_behaves_differently_inside_promise_handler",
                                shown.chars().take(200).collect(),
                                json!({"program": pi, "observed": shown}),
                            );
                        }
                        if let Some(e) = expected {
                            let norm = |s: &str| s.strip_prefix("s:").and_then(|j| serde_json::from_str::<Value>(j).ok());
                            if norm(&shown) != norm(&e) {
                                self.fail(
                                    "script_read_something_else_than_the_host_wrote",
                                    shown.chars().take(200).collect(),
                                    json!({"program": pi, "expected": e, "observed": shown}),
                                );
                            }
                        }
                    }
                    if !res.value.is_null() {
                        let _ = self.push_handle(res.value, c, None);
                    }
                    self.ctxs[c].prepared = None;
                    self.ctxs[c].expected_answers.clear();
                    self.ctxs[c].finished_value = Some(shown);
                }
                TsRunStepStatus::Suspended => {
                    for i in 0..res.pending_count {
                        let o = &*res.pending_orders.add(i);
                        self.ctxs[c].unanswered.push(o.id);
                        let shown_payload = show_handle(self.ctxs[c].ptr, o.payload);
                        let k = shown_payload.strip_prefix("{\"k\":").and_then(|r| r.strip_suffix('}')).and_then(|n| n.parse::<i64>().ok()).unwrap_or(-1);
                        self.ctxs[c].order_keys.push((o.id, k));
                        if !o.payload.is_null() && self.ctxs[c].payloads.len() < 32 {
                            self.ctxs[c].payloads.push(o.payload);
                        }
                        self.trace.push_str(&format!("order{};", o.id));
                        self.rep.bump("orders_reported", 1);
                    }
                }
                TsRunStepStatus::NeedImports => {
                    for i in 0..res.import_count {
                        let q = &*res.imports.add(i);
                        for (name, p) in [("specifier", q.specifier), ("resolved_path", q.resolved_path), ("importer", q.importer)] {
                            if let Some(Err(m)) = read_cstr(p) {
                                self.fail("returned_string_not_valid_utf8", m, json!({"field": name}));
                            }
                        }
                    }
                    self.trace.push_str("need;");
                }
                TsRunStepStatus::Error => {
                    if res.error.is_null() {
                        self.fail("error_status_without_message", "step".into(), json!({}));
                    }
                    self.note_error(c, res.error, "step");
                    // every error text a callback of this harness reports is valid UTF-8 (a static
                    // string or the context's own last error, forwarded within its lifetime): the
                    // trampoline's fallback text means it read something else
                    if let Some(Ok(t)) = read_cstr(res.error)
                        && t.contains("Unknown error")
                    {
                        self.fail("callback_error_text_lost", t.chars().take(160).collect(), json!({"error_text": t}));
                    }
                    self.ctxs[c].prepared = None;
                    self.ctxs[c].expected_answers.clear();
                    self.trace.push_str("error;");
                }
                TsRunStepStatus::Done | TsRunStepStatus::Continue => {}
            }
            tsrun_step_result_free(res);
        }
    }

    fn run(&mut self, scn: &Scn) {
        for (at, op) in scn.ops.iter().enumerate() {
            if self.rep.failure.is_some() {
                break;
            }
            self.exec(op, at);
        }
        // teardown: free remaining contexts first or handles first, by history parity
        let handles_first = scn.ops.len() % 2 == 0;
        unsafe {
            if handles_first {
                for h in self.hs.iter_mut() {
                    if !h.freed {
                        tsrun_value_free(h.ptr);
                        h.freed = true;
                    }
                }
            }
            for c in self.ctxs.iter_mut() {
                if !c.freed {
                    tsrun_free(c.ptr);
                    c.freed = true;
                }
            }
            for p in self.private.drain(..) {
                tsrun_value_free(p);
            }
            for h in self.hs.iter_mut() {
                if !h.freed {
                    // survivors: only tsrun_value_free is legal on them
                    tsrun_value_free(h.ptr);
                    h.freed = true;
                    self.rep.bump("probe_value_freed_after_its_context", 1);
                }
            }
        }
    }

    fn exec(&mut self, op: &Op, at: usize) {
        unsafe {
            match op {
                Op::NewCtx => {
                    if self.ctxs.iter().filter(|c| !c.freed).count() < 2 {
                        let p = new_context();
                        self.ctxs.push(CtxState {
                            ptr: p,
                            freed: false,
                            unanswered: vec![],
                            order_keys: vec![],
                            payloads: vec![],
                            promises: vec![],
                            expected_answers: vec![],
                            last_error: ptr::null(),
                            last_error_text: None,
                            prepared: None,
                            global_hv: None,
                            global_hv_unknown: false,
                            has_cb: false,
                            finished_value: None,
                        });
                        self.trace.push_str("new;");
                    }
                }
                Op::FreeCtx(c) => {
                    if let Some(c) = self.live_ctx(*c) {
                        let survivors = self.hs.iter().filter(|h| !h.freed && h.ctx == c).count();
                        if survivors > 0 {
                            self.rep.bump("fault_context_freed_with_live_handles", 1);
                        }
                        if !self.ctxs[c].unanswered.is_empty() {
                            self.rep.bump("fault_context_freed_with_pending_orders", 1);
                        }
                        tsrun_free(self.ctxs[c].ptr);
                        self.ctxs[c].freed = true;
                        self.trace.push_str("free_ctx;");
                    }
                }
                Op::Prepare(c, p) => {
                    if let Some(c) = self.live_ctx(*c) {
                        self.recheck_error(c);
                        let (pi, (src, path)) = if *p >= 240 {
                            let k = (*p as usize - 240) % PROGRAMS_EXTRA.len();
                            (100 + k, PROGRAMS_EXTRA[k])
                        } else {
                            let k = *p as usize % PROGRAMS.len();
                            (k, PROGRAMS[k])
                        };
                        let code = self.c(src);
                        let pth = path.map(|x| self.c(x)).unwrap_or(ptr::null());
                        let r = tsrun_prepare(self.ctxs[c].ptr, code, pth);
                        let ok = self.unit_result(c, r, "tsrun_prepare", false);
                        self.ctxs[c].prepared = if ok { Some(pi) } else { None };
                        self.ctxs[c].unanswered.clear();
                        self.ctxs[c].order_keys.clear();
                        self.ctxs[c].expected_answers.clear();
                        self.trace.push_str(&format!("prepare{}:{};", pi, ok));
                    }
                }
                Op::Run(c) => {
                    if let Some(c) = self.live_ctx(*c) {
                        self.recheck_error(c);
                        let mut res = TsRunStepResult::default();
                        tsrun_run(&mut res, self.ctxs[c].ptr);
                        self.handle_step_result(c, &mut res);
                    }
                }
                Op::Steps(c, n) => {
                    if let Some(c) = self.live_ctx(*c) {
                        self.recheck_error(c);
                        for _ in 0..(*n).min(400) {
                            let mut res = TsRunStepResult::default();
                            tsrun_step(&mut res, self.ctxs[c].ptr);
                            let cont = res.status == TsRunStepStatus::Continue;
                            self.handle_step_result(c, &mut res);
                            if !cont {
                                break;
                            }
                        }
                    }
                }
                Op::MkPrim(c, k) => {
                    if let Some(c) = self.live_ctx(*c) {
                        self.recheck_error(c);
                        let ctx = self.ctxs[c].ptr;
                        let (p, m) = match k % 6 {
                            0 => (tsrun_undefined(ctx), None),
                            1 => (tsrun_null(ctx), Some(Value::Null)),
                            2 => (tsrun_boolean(ctx, true), Some(json!(true))),
                            3 => (tsrun_number(ctx, 42.5), Some(json!(42.5))),
                            4 => (tsrun_number(ctx, f64::NAN), Some(Value::Null)),
                            _ => (tsrun_number(ctx, -7.0), Some(json!(-7))),
                        };
                        self.push_handle(p, c, m);
                    }
                }
                Op::MkString(c, k) => {
                    if let Some(c) = self.live_ctx(*c) {
                        self.recheck_error(c);
                        let ctx = self.ctxs[c].ptr;
                        match k % 5 {
                            0 => {
                                let s = self.c("hello");
                                let p = tsrun_string(ctx, s);
                                self.push_handle(p, c, Some(json!("hello")));
                            }
                            1 => {
                                let p = tsrun_string(ctx, ptr::null());
                                if !p.is_null() {
                                    self.push_handle(p, c, None);
                                }
                                self.rep.bump("null_argument_calls", 1);
                            }
                            2 => {
                                // embedded NUL through the _len variant
                                let bytes = b"ab\0cd";
                                let p = tsrun_string_len(ctx, bytes.as_ptr() as *const c_char, bytes.len());
                                self.push_handle(p, c, None);
                                self.rep.bump("embedded_nul_strings", 1);
                            }
                            3 => {
                                // invalid UTF-8 through the _len variant: must be refused or repaired, never crash
                                let bytes = [0x61u8, 0xff, 0xfe, 0x62];
                                let p = tsrun_string_len(ctx, bytes.as_ptr() as *const c_char, bytes.len());
                                if !p.is_null() {
                                    self.push_handle(p, c, None);
                                }
                                self.rep.bump("invalid_utf8_strings", 1);
                            }
                            _ => {
                                let s = self.c("žluťoučký 🐎 \u{10ffff}");
                                let p = tsrun_string(ctx, s);
                                self.push_handle(p, c, Some(json!("žluťoučký 🐎 \u{10ffff}")));
                            }
                        }
                    }
                }
                Op::MkObject(c) => {
                    if let Some(c) = self.live_ctx(*c) {
                        self.recheck_error(c);
                        let r = tsrun_object_new(self.ctxs[c].ptr);
                        let p = self.value_result(c, r, "tsrun_object_new", false);
                        self.push_handle(p, c, Some(json!({})));
                    }
                }
                Op::MkArray(c) => {
                    if let Some(c) = self.live_ctx(*c) {
                        self.recheck_error(c);
                        let r = tsrun_array_new(self.ctxs[c].ptr);
                        let p = self.value_result(c, r, "tsrun_array_new", false);
                        self.push_handle(p, c, Some(json!([])));
                    }
                }
                Op::JsonParse(c, d) => {
                    if let Some(c) = self.live_ctx(*c) {
                        self.recheck_error(c);
                        let doc = DOCS[*d as usize % DOCS.len()];
                        let model = serde_json::from_str::<Value>(doc).ok();
                        let s = self.c(doc);
                        let r = tsrun_json_parse(self.ctxs[c].ptr, s);
                        let p = self.value_result(c, r, "tsrun_json_parse", model.is_none());
                        self.push_handle(p, c, model);
                    }
                }
                Op::Inspect(h) => {
                    // inspectors take no context: legal on live handles and on NULL
                    let live: Vec<usize> = (0..self.hs.len()).filter(|k| !self.hs[*k].freed && !self.ctxs[self.hs[*k].ctx].freed).collect();
                    let p: *mut TsRunValue = if live.is_empty() || h % 7 == 6 { ptr::null_mut() } else { self.hs[live[*h as usize % live.len()]].ptr };
                    let ty = tsrun_typeof(p);
                    let flags = [
                        tsrun_is_undefined(p), tsrun_is_null(p), tsrun_is_nullish(p), tsrun_is_boolean(p), tsrun_is_number(p),
                        tsrun_is_string(p), tsrun_is_object(p), tsrun_is_array(p), tsrun_is_function(p),
                    ];
                    let _ = (tsrun_get_bool(p), tsrun_get_number(p), tsrun_array_len(p));
                    let sp = tsrun_get_string(p);
                    let sl = tsrun_get_string_len(p);
                    if !sp.is_null() {
                        if let Some(Err(m)) = read_cstr(sp) {
                            self.fail("returned_string_not_valid_utf8", m, json!({"call": "tsrun_get_string"}));
                        }
                    }
                    if p.is_null() {
                        self.rep.bump("null_argument_calls", 1);
                        if flags.iter().skip(3).any(|f| *f) || !sp.is_null() || sl != 0 {
                            self.fail("inspector_on_null_reports_a_value", format!("{:?}", flags), json!({}));
                        }
                    } else if flags[5] != (ty == TsRunType::String) || flags[4] != (ty == TsRunType::Number) {
                        self.fail("inspectors_disagree", format!("{:?} {:?}", ty, flags), json!({}));
                    }
                }
                Op::Get(c, o, k) | Op::Has(c, o, k) | Op::Delete(c, o, k) => {
                    if let Some(c) = self.live_ctx(*c) {
                        self.recheck_error(c);
                        let oi = self.pick(c, *o);
                        let op_ptr = self.ptr_of(oi);
                        let key = KEYS[*k as usize % KEYS.len()];
                        let kp = if k % 11 == 10 { ptr::null() } else { self.c(key) };
                        let ctx = self.ctxs[c].ptr;
                        match op {
                            Op::Get(..) => {
                                let r = tsrun_get(ctx, op_ptr, kp);
                                let is_obj = !op_ptr.is_null() && tsrun_is_object(op_ptr);
                                let p = self.value_result(c, r, "tsrun_get", op_ptr.is_null() || kp.is_null());
                                let m = match (oi, is_obj, kp.is_null()) {
                                    (Some(i), true, false) => self.hs[i].model.as_ref().and_then(|m| m.as_object()).map(|o| o.get(key).cloned()),
                                    _ => None,
                                };
                                // Some(Some(v)) = known property, Some(None) = known absent (undefined)
                                let model = match m {
                                    Some(Some(v)) => Some(v),
                                    _ => None,
                                };
                                if let Some(hi) = self.push_handle(p, c, model) {
                                    self.check_model(c, hi, "tsrun_get");
                                }
                            }
                            Op::Has(..) => {
                                let has = tsrun_has(ctx, op_ptr, kp);
                                if let Some(i) = oi
                                    && !kp.is_null()
                                    && let Some(m) = self.hs[i].model.as_ref().and_then(|m| m.as_object())
                                    && m.contains_key(key) != has
                                {
                                    self.fail("has_disagrees_with_model", format!("{} {}", key, has), json!({"model": m}));
                                }
                            }
                            _ => {
                                let r = tsrun_delete(ctx, op_ptr, kp);
                                let ok = self.unit_result(c, r, "tsrun_delete", op_ptr.is_null() || kp.is_null());
                                if ok && let Some(i) = oi {
                                    self.invalidate_after_mutation(c, i);
                                }
                                if ok
                                    && let Some(i) = oi
                                    && let Some(m) = self.hs[i].model.as_mut().and_then(|m| m.as_object_mut())
                                {
                                    m.remove(key);
                                }
                            }
                        }
                        if op_ptr.is_null() || kp.is_null() {
                            self.rep.bump("null_argument_calls", 1);
                        }
                    }
                }
                Op::Set(c, o, k, v) => {
                    if let Some(c) = self.live_ctx(*c) {
                        self.recheck_error(c);
                        let oi = self.pick(c, *o);
                        let vi = self.pick(c, *v);
                        let key = KEYS[*k as usize % KEYS.len()];
                        let kp = self.c(key);
                        let (op_ptr, vp) = (self.ptr_of(oi), self.ptr_of(vi));
                        let r = tsrun_set(self.ctxs[c].ptr, op_ptr, kp, vp);
                        let ok = self.unit_result(c, r, "tsrun_set", op_ptr.is_null());
                        if ok && let Some(i) = oi {
                            self.invalidate_after_mutation(c, i);
                        }
                        if let Some(i) = oi {
                            let vm = vi.and_then(|j| self.hs[j].model.clone());
                            let is_plain = self.hs[i].model.as_ref().map(|m| m.is_object()).unwrap_or(false);
                            if ok && is_plain && vi.is_some() && vm.is_some() && oi != vi {
                                if let Some(m) = self.hs[i].model.as_mut().and_then(|m| m.as_object_mut()) {
                                    m.insert(key.to_string(), vm.unwrap_or(Value::Null));
                                }
                            } else if ok {
                                // value without a model (undefined, functions, cycles …): stop modelling this object
                                self.hs[i].model = None;
                            }
                            // aliases of the same object are not tracked: drop models of every handle that may alias
                            let _ = at;
                        }
                        if op_ptr.is_null() || vp.is_null() {
                            self.rep.bump("null_argument_calls", 1);
                        }
                    }
                }
                Op::Keys(c, o) => {
                    if let Some(c) = self.live_ctx(*c) {
                        self.recheck_error(c);
                        let oi = self.pick(c, *o);
                        let mut n: usize = 0;
                        let ks = tsrun_keys(self.ctxs[c].ptr, self.ptr_of(oi), &mut n);
                        if !ks.is_null() {
                            let mut got: Vec<String> = Vec::new();
                            for i in 0..n {
                                let kp = *ks.add(i);
                                if kp.is_null() {
                                    self.fail("keys_array_has_null_entry", format!("entry {} of {}", i, n), json!({}));
                                    break;
                                }
                                match read_cstr(kp) {
                                    Some(Ok(k)) => got.push(k),
                                    Some(Err(m)) => self.fail("returned_string_not_valid_utf8", m, json!({"call": "tsrun_keys"})),
                                    None => {}
                                }
                            }
                            if let Some(i) = oi
                                && let Some(m) = self.hs[i].model.as_ref().and_then(|m| m.as_object())
                            {
                                let mut want: Vec<String> = m.keys().cloned().collect();
                                let mut g2 = got.clone();
                                want.sort();
                                g2.sort();
                                if want != g2 {
                                    self.fail("keys_differ_from_model", format!("{:?}", got), json!({"model_keys": want, "observed": got}));
                                }
                            }
                            tsrun_free_strings(ks, n);
                        } else if n != 0 {
                            self.fail("keys_null_with_nonzero_count", n.to_string(), json!({}));
                        }
                    }
                }
                Op::ArrGet(c, a, i) => {
                    if let Some(c) = self.live_ctx(*c) {
                        self.recheck_error(c);
                        let ai = self.pick(c, *a);
                        let ap = self.ptr_of(ai);
                        let r = tsrun_array_get(self.ctxs[c].ptr, ap, *i as usize % 5);
                        let is_arr = !ap.is_null() && tsrun_is_array(ap);
                        let p = self.value_result(c, r, "tsrun_array_get", ap.is_null());
                        let model = if is_arr {
                            ai.and_then(|k| self.hs[k].model.as_ref().and_then(|m| m.as_array()).and_then(|v| v.get(*i as usize % 5).cloned()))
                        } else {
                            None
                        };
                        if let Some(hi) = self.push_handle(p, c, model) {
                            self.check_model(c, hi, "tsrun_array_get");
                        }
                    }
                }
                Op::ArrSet(c, a, _i, v) => {
                    if let Some(c) = self.live_ctx(*c) {
                        self.recheck_error(c);
                        let ai = self.pick(c, *a);
                        let vi = self.pick(c, *v);
                        let r = tsrun_array_set(self.ctxs[c].ptr, self.ptr_of(ai), 0, self.ptr_of(vi));
                        let ok = self.unit_result(c, r, "tsrun_array_set", ai.is_none());
                        if ok && let Some(k) = ai {
                            self.hs[k].model = None;
                            self.invalidate_after_mutation(c, k);
                        }
                    }
                }
                Op::ArrPush(c, a, v) => {
                    if let Some(c) = self.live_ctx(*c) {
                        self.recheck_error(c);
                        let ai = self.pick(c, *a);
                        let vi = self.pick(c, *v);
                        let ap = self.ptr_of(ai);
                        let r = tsrun_array_push(self.ctxs[c].ptr, ap, self.ptr_of(vi));
                        let ok = self.unit_result(c, r, "tsrun_array_push", ai.is_none());
                        if ok && let Some(k) = ai {
                            self.invalidate_after_mutation(c, k);
                            let vm = vi.and_then(|j| self.hs[j].model.clone());
                            let is_arr = self.hs[k].model.as_ref().map(|m| m.is_array()).unwrap_or(false);
                            if is_arr && vm.is_some() && ai != vi {
                                if let Some(m) = self.hs[k].model.as_mut().and_then(|m| m.as_array_mut()) {
                                    m.push(vm.unwrap_or(Value::Null));
                                }
                            } else {
                                self.hs[k].model = None;
                            }
                        }
                    }
                }
                Op::Stringify(c, h) => {
                    if let Some(c) = self.live_ctx(*c) {
                        self.recheck_error(c);
                        if let Some(hi) = self.pick(c, *h) {
                            self.check_model(c, hi, "tsrun_json_stringify");
                        } else {
                            let j = tsrun_json_stringify(self.ctxs[c].ptr, ptr::null_mut());
                            if !j.is_null() {
                                tsrun_free_string(j);
                            }
                            self.rep.bump("null_argument_calls", 1);
                        }
                    }
                }
                Op::Dup(c, h) => {
                    if let Some(c) = self.live_ctx(*c) {
                        self.recheck_error(c);
                        let hi = self.pick(c, *h);
                        let p = tsrun_value_dup(self.ctxs[c].ptr, self.ptr_of(hi));
                        let m = hi.and_then(|i| self.hs[i].model.clone());
                        // two handles to one object: mutations through one are not mirrored in the other's model
                        if let Some(i) = hi
                            && self.hs[i].model.as_ref().map(|m| m.is_object() || m.is_array()).unwrap_or(false)
                        {
                            self.hs[i].model = None;
                            self.push_handle(p, c, None);
                        } else {
                            self.push_handle(p, c, m);
                        }
                        self.rep.bump("duplicate_handles", 1);
                    }
                }
                Op::Free(h) => {
                    let live: Vec<usize> = (0..self.hs.len()).filter(|k| !self.hs[*k].freed).collect();
                    if !live.is_empty() {
                        let i = live[*h as usize % live.len()];
                        if self.ctxs[self.hs[i].ctx].freed {
                            self.rep.bump("probe_value_freed_after_its_context", 1);
                        }
                        tsrun_value_free(self.hs[i].ptr);
                        self.hs[i].freed = true;
                    } else {
                        tsrun_value_free(ptr::null_mut());
                    }
                }
                Op::Call(c, f, this, n) => {
                    if let Some(c) = self.live_ctx(*c) {
                        self.recheck_error(c);
                        let fi = self.pick(c, *f);
                        let ti = self.pick(c, *this);
                        let mut args: Vec<*mut TsRunValue> = (0..(*n % 4)).map(|k| self.ptr_of(self.pick(c, f.wrapping_add(k as u16 + 1)))).collect();
                        let ap = if args.is_empty() { ptr::null_mut() } else { args.as_mut_ptr() };
                        SELF_FN.with(|c| c.set(self.ptr_of(fi)));
                        let r = tsrun_call(self.ctxs[c].ptr, self.ptr_of(fi), self.ptr_of(ti), ap, args.len());
                        SELF_FN.with(|c| c.set(ptr::null_mut()));
                        let p = self.value_result(c, r, "tsrun_call", fi.is_none());
                        self.push_handle(p, c, None);
                    }
                }
                Op::CallMethod(c, o, m) => {
                    if let Some(c) = self.live_ctx(*c) {
                        self.recheck_error(c);
                        let oi = self.pick(c, *o);
                        let long_a = "é".repeat(140);
                        let long_b = format!("x{}", "é".repeat(140));
                        let long_c = format!("ab{}", "日".repeat(100));
                        let name = ["toString", "slice", "join", "nope", "hasOwnProperty", long_a.as_str(), long_b.as_str(), long_c.as_str()][*m as usize % 8];
                        let np = self.c(name);
                        let r = tsrun_call_method(self.ctxs[c].ptr, self.ptr_of(oi), np, ptr::null_mut(), 0);
                        let p = self.value_result(c, r, "tsrun_call_method", oi.is_none());
                        self.push_handle(p, c, None);
                    }
                }
                Op::SetGlobal(c, which, v) => {
                    if let Some(c) = self.live_ctx(*c) {
                        self.recheck_error(c);
                        let vi = self.pick(c, *v);
                        let name = if which % 2 == 0 { "hv" } else { "cb" };
                        let np = self.c(name);
                        let vp = self.ptr_of(vi);
                        let r = tsrun_set_global(self.ctxs[c].ptr, np, vp);
                        let ok = self.unit_result(c, r, "tsrun_set_global", false);
                        if ok && name == "hv" {
                            // a program that is already running may have read the old value
                            let mid_run = self.ctxs[c].prepared.is_some();
                            match vi.and_then(|i| self.hs[i].model.clone()) {
                                Some(m) => {
                                    self.ctxs[c].global_hv = Some(m);
                                    self.ctxs[c].global_hv_unknown = mid_run;
                                    // later mutations through the handle would not be mirrored: freeze the handle's model
                                    if let Some(i) = vi
                                        && self.hs[i].model.as_ref().map(|m| m.is_object() || m.is_array()).unwrap_or(false)
                                    {
                                        self.hs[i].model = None;
                                    }
                                }
                                None => self.ctxs[c].global_hv_unknown = true,
                            }
                        }
                        if ok && name == "cb" {
                            self.ctxs[c].has_cb = vi.map(|i| tsrun_is_function(self.hs[i].ptr)).unwrap_or(false);
                        }
                    }
                }
                Op::GetGlobal(c, which) => {
                    if let Some(c) = self.live_ctx(*c) {
                        self.recheck_error(c);
                        let name = ["hv", "cb", "keep", "JSON", "nope", "Map", "Set", "Symbol", "Array", "Promise", "symobj", "Object", "Math", "symonly"][*which as usize % 14];
                        let np = if which % 13 == 12 { ptr::null() } else { self.c(name) };
                        let r = tsrun_get_global(self.ctxs[c].ptr, np);
                        let p = self.value_result(c, r, "tsrun_get_global", np.is_null());
                        self.push_handle(p, c, None);
                    }
                }
                Op::NativeFn(c, mode) => {
                    if let Some(c) = self.live_ctx(*c) {
                        self.recheck_error(c);
                        let np = self.c("hostfn");
                        let r = tsrun_native_function(self.ctxs[c].ptr, np, native_cb, 3, (*mode as usize) as *mut c_void);
                        let p = self.value_result(c, r, "tsrun_native_function", false);
                        if let Some(hi) = self.push_handle(p, c, None) {
                            // install as global callback right away half of the time
                            if mode % 2 == 0 {
                                let cbn = self.c("cb");
                                let rr = tsrun_set_global(self.ctxs[c].ptr, cbn, self.hs[hi].ptr);
                                self.unit_result(c, rr, "tsrun_set_global", false);
                                self.ctxs[c].has_cb = true;
                            }
                        }
                        self.rep.bump("native_callbacks_registered", 1);
                    }
                }
                Op::GcStats(c) => {
                    if let Some(c) = self.live_ctx(*c) {
                        self.recheck_error(c);
                        // look at an order payload the context handed out earlier (answered or not)
                        if !self.ctxs[c].payloads.is_empty() {
                            let pl = self.ctxs[c].payloads[self.hs.len() % self.ctxs[c].payloads.len()];
                            let ctx = self.ctxs[c].ptr;
                            let shown = show_handle(ctx, pl);
                            let ok = shown.starts_with("{\"k\":") && shown.ends_with('}') && shown[5..shown.len() - 1].chars().all(|ch| ch.is_ascii_digit());
                            if !ok {
                                self.fail("order_payload_kept_by_the_host_changed", shown.chars().take(120).collect(), json!({"payload_now": shown}));
                            }
                            let d = tsrun_value_dup(ctx, pl);
                            if !d.is_null() {
                                tsrun_value_free(d);
                            }
                            self.rep.bump("kept_order_payloads_inspected", 1);
                        }
                        let s = tsrun_gc_stats(self.ctxs[c].ptr);
                        if s.live_objects + s.pooled_objects != s.total_objects {
                            self.fail("gc_stats_inconsistent", format!("{} {} {}", s.live_objects, s.pooled_objects, s.total_objects), json!({}));
                        }
                    } else {
                        let _ = tsrun_gc_stats(ptr::null_mut());
                    }
                }
                Op::GetExport(c, k) => {
                    if let Some(c) = self.live_ctx(*c) {
                        self.recheck_error(c);
                        let name = ["x", "y", "default", "nope"][*k as usize % 4];
                        let np = self.c(name);
                        let r = tsrun_get_export(self.ctxs[c].ptr, np);
                        let p = self.value_result(c, r, "tsrun_get_export", false);
                        self.push_handle(p, c, None);
                    }
                }
                Op::ExportNames(c) => {
                    if let Some(c) = self.live_ctx(*c) {
                        self.recheck_error(c);
                        let mut n: usize = 0;
                        let names = tsrun_get_export_names(self.ctxs[c].ptr, &mut n);
                        if !names.is_null() {
                            for i in 0..n {
                                if let Some(Err(m)) = read_cstr(*names.add(i)) {
                                    self.fail("returned_string_not_valid_utf8", m, json!({"call": "tsrun_get_export_names"}));
                                }
                            }
                            tsrun_free_strings(names, n);
                        }
                    }
                }
                Op::ProvideModule(c, k) => {
                    if let Some(c) = self.live_ctx(*c) {
                        self.recheck_error(c);
                        let (path, code) = match k % 3 {
                            0 => ("/mod/dep.ts", "export const x: number = 41;"),
                            1 => ("/mod/dep.ts", "export const x: number = ;"),
                            _ => ("/other.ts", "export const z = 1;"),
                        };
                        let pp = self.c(path);
                        let cp = self.c(code);
                        let r = tsrun_provide_module(self.ctxs[c].ptr, pp, cp);
                        self.unit_result(c, r, "tsrun_provide_module", k % 3 == 1);
                    }
                }
                Op::NullCalls(k) => {
                    // every entry point with a NULL context / NULL handles: documented error shape, no crash
                    self.rep.bump("null_argument_calls", 1);
                    let n: *mut TsRunContext = ptr::null_mut();
                    let v: *mut TsRunValue = ptr::null_mut();
                    match k % 12 {
                        0 => {
                            let r = tsrun_prepare(n, ptr::null(), ptr::null());
                            if r.ok || r.error.is_null() { self.fail("misuse_not_reported", "tsrun_prepare(NULL)".into(), json!({})); }
                        }
                        1 => {
                            let mut res = TsRunStepResult::default();
                            tsrun_step(&mut res, n);
                            if res.status != TsRunStepStatus::Error { self.fail("misuse_not_reported", "tsrun_step(NULL ctx)".into(), json!({})); }
                            tsrun_step_result_free(&mut res);
                            tsrun_step(ptr::null_mut(), n);
                            tsrun_run(ptr::null_mut(), n);
                            tsrun_step_result_free(ptr::null_mut());
                        }
                        2 => {
                            for r in [tsrun_get(n, v, ptr::null()), tsrun_json_parse(n, ptr::null()), tsrun_object_new(n), tsrun_array_new(n), tsrun_get_global(n, ptr::null()), tsrun_get_export(n, ptr::null()), tsrun_create_order_promise(n, 1), tsrun_array_get(n, v, 0), tsrun_call(n, v, v, ptr::null_mut(), 0), tsrun_call_method(n, v, ptr::null(), ptr::null_mut(), 0)] {
                                if !r.value.is_null() || r.error.is_null() { self.fail("misuse_not_reported", "value-returning call with NULL ctx".into(), json!({})); }
                            }
                        }
                        3 => {
                            for r in [tsrun_set(n, v, ptr::null(), v), tsrun_delete(n, v, ptr::null()), tsrun_array_set(n, v, 0, v), tsrun_array_push(n, v, v), tsrun_set_global(n, ptr::null(), v), tsrun_provide_module(n, ptr::null(), ptr::null()), tsrun_fulfill_orders(n, ptr::null(), 0), tsrun_resolve_promise(n, v, v), tsrun_reject_promise(n, v, ptr::null()), tsrun_register_internal_module(n, ptr::null_mut())] {
                                if r.ok || r.error.is_null() { self.fail("misuse_not_reported", "unit call with NULL ctx".into(), json!({})); }
                            }
                        }
                        4 => {
                            tsrun_free(n);
                            tsrun_value_free(v);
                            tsrun_free_string(ptr::null_mut());
                            tsrun_free_strings(ptr::null_mut(), 3);
                            let _ = tsrun_value_dup(n, v);
                            let _ = tsrun_has(n, v, ptr::null());
                            let mut cnt: usize = 5;
                            let ks = tsrun_keys(n, v, &mut cnt);
                            if !ks.is_null() || cnt != 0 { self.fail("misuse_not_reported", "tsrun_keys(NULL)".into(), json!({})); }
                            let mut cnt2: usize = 5;
                            let ns = tsrun_get_export_names(n, &mut cnt2);
                            if !ns.is_null() || cnt2 != 0 { self.fail("misuse_not_reported", "tsrun_get_export_names(NULL)".into(), json!({})); }
                        }
                        5 => {
                            if let Some(c) = self.live_ctx(*k) {
                                self.recheck_error(c);
                                let ctx = self.ctxs[c].ptr;
                                // live context, NULL everything else
                                let r1 = tsrun_prepare(ctx, ptr::null(), ptr::null());
                                self.unit_result(c, r1, "tsrun_prepare(NULL code)", true);
                                let r2 = tsrun_fulfill_orders(ctx, ptr::null(), 3);
                                self.unit_result(c, r2, "tsrun_fulfill_orders(NULL,3)", true);
                                let r3 = tsrun_resolve_promise(ctx, v, v);
                                self.unit_result(c, r3, "tsrun_resolve_promise(NULL)", true);
                                let r4 = tsrun_reject_promise(ctx, v, ptr::null());
                                self.unit_result(c, r4, "tsrun_reject_promise(NULL)", true);
                                let r5 = tsrun_register_internal_module(ctx, ptr::null_mut());
                                self.unit_result(c, r5, "tsrun_register_internal_module(NULL)", true);
                                let r6 = tsrun_set_console(ctx, None, ptr::null_mut());
                                self.unit_result(c, r6, "tsrun_set_console(None)", false);
                                extern "C" fn quiet(_: TsRunConsoleLevel, _: *const c_char, _: usize, _: *mut c_void) {}
                                let r7 = tsrun_set_console(ctx, Some(quiet), ptr::null_mut());
                                self.unit_result(c, r7, "tsrun_set_console", false);
                            }
                        }
                        6 => {
                            let m = tsrun_internal_module_new(ptr::null());
                            if !m.is_null() { self.fail("misuse_not_reported", "tsrun_internal_module_new(NULL)".into(), json!({})); }
                            tsrun_internal_module_add_function(ptr::null_mut(), ptr::null(), native_cb, 0, ptr::null_mut());
                            tsrun_internal_module_add_value(ptr::null_mut(), ptr::null(), v);
                        }
                        7 => {
                            if let Some(c) = self.live_ctx(*k) {
                                self.recheck_error(c);
                                // a module with a function and a value, registered properly
                                let spec = self.c(&format!("host:mod{}", self.hs.len()));
                                let m = tsrun_internal_module_new(spec);
                                let fname = self.c("f");
                                tsrun_internal_module_add_function(m, fname, native_cb, 1, 3usize as *mut c_void);
                                let vname = self.c("v");
                                let val = tsrun_number(self.ctxs[c].ptr, 5.0);
                                tsrun_internal_module_add_value(m, vname, val); // ownership moves to the module
                                let r = tsrun_register_internal_module(self.ctxs[c].ptr, m);
                                self.unit_result(c, r, "tsrun_register_internal_module", false);
                            }
                        }
                        8 => {
                            let p = tsrun_version();
                            if let Some(Err(m)) = read_cstr(p) { self.fail("returned_string_not_valid_utf8", m, json!({"call": "tsrun_version"})); }
                        }
                        _ => {
                            let _ = (tsrun_undefined(n), tsrun_null(n), tsrun_boolean(n, true), tsrun_number(n, 1.0), tsrun_string(n, ptr::null()), tsrun_string_len(n, ptr::null(), 4));
                            let j = tsrun_json_stringify(n, v);
                            if !j.is_null() { tsrun_free_string(j); }
                        }
                    }
                }
                Op::Episode(kind, pad, n) => {
                    let ctx = tsrun_new();
                    if ctx.is_null() {
                        return;
                    }
                    self.rep.bump("episodes", 1);
                    if kind % 3 == 2 {
                        // a host regular-expression engine behind tsrun_set_regexp_provider
                        HOST_REGEX.with(|h| *h.borrow_mut() = (Vec::new(), 0, 0));
                        let cbs = HostRegexCallbacks { compile: hre_compile, is_match: hre_is_match, find: hre_find, free: hre_free, free_captures: None, userdata: ptr::null_mut() };
                        let r = tsrun_set_regexp_provider(ctx, &cbs);
                        if !r.ok {
                            self.fail("episode_set_regexp_provider_failed", "tsrun_set_regexp_provider".into(), json!({}));
                        }
                        let subjects = ["axxb", "xx", "", "日本x", "bxxa xx"];
                        let sub = subjects[*pad as usize % subjects.len()];
                        let code = self.c(&format!(
                            "const s: string = \"{sub}\"; const out: any[] = []; try {{ out.push(s.replace(/x*/g, \"-\")); out.push(s.split(/x*/).length); out.push((s.match(/x*/g) || []).length); out.push(s.replaceAll(\"x\", \"y\")); out.push(/xx/.test(s)); out.push(s.search(/b/)); out.push([...s.matchAll(/x*/g)].length); }} catch (e: any) {{ out.push(\"threw:\" + String(e && e.message)); }} JSON.stringify(out)"
                        ));
                        let pr = tsrun_prepare(ctx, code, ptr::null());
                        if pr.ok {
                            let mut res = TsRunStepResult::default();
                            tsrun_run(&mut res, ctx);
                            tsrun_step_result_free(&mut res);
                        }
                        tsrun_free(ctx);
                        let (notes, compiled, freed) = HOST_REGEX.with(|h| h.borrow().clone());
                        if let Some(n) = notes.first() {
                            self.fail("host_regexp_engine_called_outside_its_contract", n.chars().take(160).collect(), json!({"notes": notes, "subject": sub}));
                        } else if freed > compiled {
                            self.fail("host_regexp_handle_freed_twice", format!("compiled {} freed {}", compiled, freed), json!({}));
                        }
                        self.rep.bump("episode_host_regexp_engine", 1);
                        return;
                    }
                    if kind % 2 == 0 {
                        // throwaway objects first: moves the point where the threshold collector runs
                        for i in 0..(*pad as usize % 130) {
                            let t = self.c(&format!("{{\"pad\":{},\"l\":[{{}}]}}", i));
                            let r = tsrun_json_parse(ctx, t);
                            if !r.value.is_null() {
                                tsrun_value_free(r.value);
                            }
                        }
                        let spec = self.c("host:episode");
                        let m = tsrun_internal_module_new(spec);
                        // export names are built in ONE scratch buffer that is overwritten for every
                        // add_* call (the header does not ask for names to outlive the call)
                        let mut scratch = [0u8; 24];
                        let mut name_in_scratch = |name: &str, scratch: &mut [u8; 24]| -> *const c_char {
                            scratch.fill(0);
                            scratch[..name.len().min(23)].copy_from_slice(&name.as_bytes()[..name.len().min(23)]);
                            scratch.as_ptr() as *const c_char
                        };
                        let cfg = tsrun_json_parse(ctx, self.c("{\"port\":8080,\"tags\":[{\"t\":1},{\"t\":2}],\"name\":\"cfg\"}"));
                        tsrun_internal_module_add_value(m, name_in_scratch("config", &mut scratch), cfg.value); // ownership moves to the module
                        for i in 0..(*n as usize % 6) {
                            tsrun_internal_module_add_function(m, name_in_scratch(&format!("f{}", i), &mut scratch), native_cb, 1, 3usize as *mut c_void);
                        }
                        let extra = tsrun_json_parse(ctx, self.c("[{\"e\":[1,2,{\"deep\":true}]},\"x\"]"));
                        tsrun_internal_module_add_value(m, name_in_scratch("extra", &mut scratch), extra.value);
                        tsrun_internal_module_add_function(m, name_in_scratch("last", &mut scratch), native_cb, 1, 3usize as *mut c_void);
                        name_in_scratch("scratch-is-reused", &mut scratch);
                        let r = tsrun_register_internal_module(ctx, m);
                        if !r.ok {
                            self.fail("episode_register_failed", "tsrun_register_internal_module".into(), json!({}));
                        }
                        let code = self.c("import { config, extra, last } from \"host:episode\"; const junk: any[] = []; for (let i = 0; i < 30; i++) { junk.push({ i: i }); } JSON.stringify([config, extra, typeof last])");
                        let pr = tsrun_prepare(ctx, code, ptr::null());
                        let mut got = String::from("<no result>");
                        if pr.ok {
                            let mut res = TsRunStepResult::default();
                            tsrun_run(&mut res, ctx);
                            if res.status == TsRunStepStatus::Complete && !res.value.is_null() {
                                if let Some(Ok(s)) = read_cstr(tsrun_get_string(res.value)) {
                                    got = s;
                                }
                            } else if res.status == TsRunStepStatus::Error {
                                got = format!("error:{}", read_cstr(res.error).and_then(|r| r.ok()).unwrap_or_default());
                            } else {
                                got = format!("status:{}", res.status as u32);
                            }
                            tsrun_step_result_free(&mut res);
                        }
                        let want = "[{\"name\":\"cfg\",\"port\":8080,\"tags\":[{\"t\":1},{\"t\":2}]},[{\"e\":[1,2,{\"deep\":true}]},\"x\"],\"function\"]";
                        if got != want {
                            self.fail("internal_module_value_export_changed", got.chars().take(200).collect(), json!({"expected": want, "observed": got, "pad": pad, "functions": n % 6}));
                        }
                        self.rep.bump("episode_internal_module_imported", 1);
                    } else {
                        thread_local! { static SEEN: std::cell::RefCell<Vec<Vec<u8>>> = const { std::cell::RefCell::new(Vec::new()) }; }
                        extern "C" fn rec(_: TsRunConsoleLevel, msg: *const c_char, len: usize, _: *mut c_void) {
                            let bytes = if msg.is_null() || len == 0 { Vec::new() } else { unsafe { std::slice::from_raw_parts(msg as *const u8, len) }.to_vec() };
                            SEEN.with(|s| s.borrow_mut().push(bytes));
                        }
                        SEEN.with(|s| s.borrow_mut().clear());
                        let r = tsrun_set_console(ctx, Some(rec), ptr::null_mut());
                        if !r.ok {
                            self.fail("episode_set_console_failed", "tsrun_set_console".into(), json!({}));
                        }
                        let texts: [&str; 5] = ["a\u{0}b", "\u{0}", "naïve\u{0}✓ 日本語", "plain", "tail\u{0}"];
                        let pick = &texts[(*pad as usize) % texts.len()];
                        let lit: String = pick.chars().map(|c| if c == '\u{0}' { "\\u0000".to_string() } else { c.to_string() }).collect();
                        let code = self.c(&format!("console.log(\"{}\"); console.warn(\"{}\" + \"!\"); 1", lit, lit));
                        let pr = tsrun_prepare(ctx, code, ptr::null());
                        if pr.ok {
                            let mut res = TsRunStepResult::default();
                            tsrun_run(&mut res, ctx);
                            tsrun_step_result_free(&mut res);
                        }
                        let seen: Vec<Vec<u8>> = SEEN.with(|s| s.borrow().clone());
                        let want: Vec<Vec<u8>> = vec![pick.as_bytes().to_vec(), format!("{}!", pick).into_bytes()];
                        if seen != want {
                            self.fail(
                                "console_callback_bytes_differ_from_logged_text",
                                format!("{:?}", seen).chars().take(200).collect(),
                                json!({"expected": want, "observed": seen}),
                            );
                        }
                        self.rep.bump("episode_console_with_nul", 1);
                    }
                    tsrun_free(ctx);
                }
                Op::Answer(c, how, v, release_now, churn) => {
                    if let Some(c) = self.live_ctx(*c) {
                        if self.ctxs[c].unanswered.is_empty() {
                            return;
                        }
                        self.recheck_error(c);
                        let ctx = self.ctxs[c].ptr;
                        let id = self.ctxs[c].unanswered.remove(0);
                        match how % 4 {
                            1 => {
                                let e = self.c("host says no");
                                let resp = TsRunOrderResponse { id, value: ptr::null_mut(), error: e };
                                let r = tsrun_fulfill_orders(ctx, &resp, 1);
                                self.unit_result(c, r, "tsrun_fulfill_orders", false);
                                self.ctxs[c].prepared = self.ctxs[c].prepared.filter(|p| *p != 1 && *p != 2 && *p != 101);
                            }
                            2 => {
                                let pr = tsrun_create_order_promise(ctx, id);
                                let p = self.value_result(c, pr, "tsrun_create_order_promise", false);
                                if let Some(hi) = self.push_handle(p, c, None) {
                                    let resp = TsRunOrderResponse { id, value: p, error: ptr::null() };
                                    let r = tsrun_fulfill_orders(ctx, &resp, 1);
                                    self.unit_result(c, r, "tsrun_fulfill_orders", false);
                                    self.ctxs[c].promises.push((hi, false, id));
                                    self.ctxs[c].expected_answers.push((id, json!({"late": id})));
                                    // KF-C07-6 (open): a marker answered with a promise yields the promise when awaited
                                    self.ctxs[c].prepared = self.ctxs[c].prepared.filter(|p| *p != 101);
                                }
                            }
                            _ => {
                                // a fresh object response built just for this order
                                let doc = DOCS[*v as usize % 4];
                                let model = serde_json::from_str::<Value>(doc).unwrap_or(Value::Null);
                                let d = self.c(doc);
                                let pr = tsrun_json_parse(ctx, d);
                                let p = self.value_result(c, pr, "tsrun_json_parse", false);
                                if p.is_null() {
                                    return;
                                }
                                let resp = TsRunOrderResponse { id, value: p, error: ptr::null() };
                                let r = tsrun_fulfill_orders(ctx, &resp, 1);
                                self.unit_result(c, r, "tsrun_fulfill_orders", false);
                                self.ctxs[c].expected_answers.push((id, model));
                                if *release_now {
                                    // the header allows releasing the response right after it was submitted
                                    tsrun_value_free(p);
                                    self.rep.bump("fault_response_released_right_after_submit", 1);
                                    for k in 0..(*churn as usize % 64) {
                                        let junk = self.c(&format!("{{\"b\":{{\"c\":{}}}}}", k));
                                        let jr = tsrun_json_parse(ctx, junk);
                                        if !jr.value.is_null() {
                                            tsrun_value_free(jr.value);
                                        }
                                    }
                                    self.forget_error(c);
                                } else {
                                    self.private.push(p);
                                }
                            }
                        }
                    }
                }
                Op::DetachChild(c, h, k, churn) => {
                    if let Some(c) = self.live_ctx(*c) {
                        self.recheck_error(c);
                        let ctx = self.ctxs[c].ptr;
                        // a modelled container of this context
                        let cands: Vec<usize> = (0..self.hs.len())
                            .filter(|i| !self.hs[*i].freed && self.hs[*i].ctx == c && self.hs[*i].model.as_ref().map(|m| (m.is_object() || m.is_array()) && m.as_object().map(|o| !o.is_empty()).unwrap_or(true) && m.as_array().map(|a| !a.is_empty()).unwrap_or(true)).unwrap_or(false))
                            .collect();
                        if cands.is_empty() {
                            return;
                        }
                        let pi = cands[*h as usize % cands.len()];
                        let pm = self.hs[pi].model.clone().unwrap_or(Value::Null);
                        let (child_ptr, child_model) = if let Some(a) = pm.as_array() {
                            let idx = *k as usize % a.len();
                            let r = tsrun_array_get(ctx, self.hs[pi].ptr, idx);
                            (self.value_result(c, r, "tsrun_array_get", false), a[idx].clone())
                        } else if let Some(o) = pm.as_object() {
                            let keys: Vec<&String> = o.keys().collect();
                            let key = keys[*k as usize % keys.len()].clone();
                            let kp = self.c(&key);
                            let r = tsrun_get(ctx, self.hs[pi].ptr, kp);
                            (self.value_result(c, r, "tsrun_get", false), o[&key].clone())
                        } else {
                            return;
                        };
                        if child_ptr.is_null() {
                            return;
                        }
                        // release the parent: the child handle alone must keep the child alive
                        tsrun_value_free(self.hs[pi].ptr);
                        self.hs[pi].freed = true;
                        self.rep.bump("fault_parent_released_while_child_held", 1);
                        for j in 0..(20 + (*churn as usize % 3) * 60) {
                            let junk = self.c(&format!("{{\"junk\":[{},{{\"j\":{}}}]}}", j, j));
                            let jr = tsrun_json_parse(ctx, junk);
                            if !jr.value.is_null() {
                                tsrun_value_free(jr.value);
                            }
                        }
                        self.forget_error(c);
                        if let Some(hi) = self.push_handle(child_ptr, c, Some(child_model)) {
                            self.check_model(c, hi, "child read after its parent handle was released");
                        }
                    }
                }
                Op::CallNativeWithNative(c, how) => {
                    if let Some(c) = self.live_ctx(*c) {
                        self.recheck_error(c);
                        let ctx = self.ctxs[c].ptr;
                        let na = self.c("callsarg");
                        let nb = self.c("plain");
                        let ra = tsrun_native_function(ctx, na, native_cb, 1, 7usize as *mut c_void);
                        let fa = self.value_result(c, ra, "tsrun_native_function", false);
                        let rb = tsrun_native_function(ctx, nb, native_cb, 0, 6usize as *mut c_void);
                        let fb = self.value_result(c, rb, "tsrun_native_function", false);
                        if fa.is_null() || fb.is_null() {
                            return;
                        }
                        let got = if how % 2 == 0 {
                            // A(B) through the API
                            let mut args = [fb];
                            let r = tsrun_call(ctx, fa, ptr::null_mut(), args.as_mut_ptr(), 1);
                            self.value_result(c, r, "tsrun_call", false)
                        } else {
                            // [B].map(A): A is invoked by a native, B by A
                            let arr = tsrun_array_new(ctx);
                            if arr.value.is_null() {
                                return;
                            }
                            tsrun_array_push(ctx, arr.value, fb);
                            let mp = self.c("map");
                            let mut args = [fa];
                            let r = tsrun_call_method(ctx, arr.value, mp, args.as_mut_ptr(), 1);
                            let mapped = self.value_result(c, r, "tsrun_call_method", false);
                            let first = if mapped.is_null() { ptr::null_mut() } else { tsrun_array_get(ctx, mapped, 0).value };
                            if !mapped.is_null() {
                                tsrun_value_free(mapped);
                            }
                            tsrun_value_free(arr.value);
                            first
                        };
                        let n = if got.is_null() { f64::NAN } else { tsrun_get_number(got) };
                        if n != 1.0 {
                            let err = self.ctxs[c].last_error_text.clone();
                            self.fail("host_function_called_through_the_api_got_wrong_callback", format!("result {} expected 1", n), json!({"how": how % 2, "last_error": err}));
                        }
                        if !got.is_null() {
                            tsrun_value_free(got);
                        }
                        self.forget_error(c);
                        self.push_handle(fa, c, None);
                        self.push_handle(fb, c, None);
                        self.rep.bump("host_function_called_by_host_function", 1);
                    }
                }
                Op::CallSelfWriter(c, extra) => {
                    if let Some(c) = self.live_ctx(*c) {
                        self.recheck_error(c);
                        let ctx = self.ctxs[c].ptr;
                        let np = self.c("selfwriter");
                        let r = tsrun_native_function(ctx, np, native_cb, 0, 6usize as *mut c_void);
                        let f = self.value_result(c, r, "tsrun_native_function", false);
                        if f.is_null() {
                            return;
                        }
                        let argc = (*extra % 3) as usize;
                        let mut args: Vec<*mut TsRunValue> = (0..argc).map(|k| tsrun_number(ctx, k as f64)).collect();
                        let ap = if args.is_empty() { ptr::null_mut() } else { args.as_mut_ptr() };
                        SELF_FN.with(|c| c.set(f));
                        let r = tsrun_call(ctx, f, ptr::null_mut(), ap, argc);
                        SELF_FN.with(|c| c.set(ptr::null_mut()));
                        let rv = self.value_result(c, r, "tsrun_call", false);
                        let kp = self.c("calls");
                        let g = tsrun_get(ctx, f, kp);
                        let want = 1.0 + argc as f64;
                        let seen = if g.value.is_null() { f64::NAN } else { tsrun_get_number(g.value) };
                        let ret = if rv.is_null() { f64::NAN } else { tsrun_get_number(rv) };
                        if seen != want || ret != want {
                            let err = self.ctxs[c].last_error_text.clone();
                            if std::env::var("TSIM_C17_TRACE").is_ok() {
                                eprintln!("selfwriter: rv null {} g null {} err {:?}", rv.is_null(), g.value.is_null(), err);
                            }
                            self.fail("callback_write_to_its_own_function_object_lost", format!("property {} returned {} expected {}", seen, ret, want), json!({"last_error": err}));
                        }
                        for a in args.drain(..) {
                            tsrun_value_free(a);
                        }
                        if !g.value.is_null() {
                            tsrun_value_free(g.value);
                        }
                        if !rv.is_null() {
                            tsrun_value_free(rv);
                        }
                        self.forget_error(c);
                        self.push_handle(f, c, None);
                        self.rep.bump("callback_wrote_to_its_own_function_object", 1);
                    }
                }
                Op::DetachAlias(c, h, via_method, churn) => {
                    if let Some(c) = self.live_ctx(*c) {
                        self.recheck_error(c);
                        let ctx = self.ctxs[c].ptr;
                        let cands: Vec<usize> = (0..self.hs.len())
                            .filter(|i| !self.hs[*i].freed && self.hs[*i].ctx == c && self.hs[*i].model.as_ref().map(|m| m.is_object() || m.is_array()).unwrap_or(false))
                            .collect();
                        if cands.is_empty() {
                            return;
                        }
                        let pi = cands[*h as usize % cands.len()];
                        let model = self.hs[pi].model.clone();
                        let alias = if *via_method {
                            // valueOf of a plain object or array returns its receiver
                            let np = self.c("valueOf");
                            let r = tsrun_call_method(ctx, self.hs[pi].ptr, np, ptr::null_mut(), 0);
                            self.value_result(c, r, "tsrun_call_method", false)
                        } else {
                            let np = self.c("Object");
                            let g = tsrun_get_global(ctx, np);
                            if g.value.is_null() {
                                return;
                            }
                            let mut args = [self.hs[pi].ptr];
                            let r = tsrun_call(ctx, g.value, ptr::null_mut(), args.as_mut_ptr(), 1);
                            tsrun_value_free(g.value);
                            self.value_result(c, r, "tsrun_call", false)
                        };
                        if alias.is_null() {
                            return;
                        }
                        tsrun_value_free(self.hs[pi].ptr);
                        self.hs[pi].freed = true;
                        self.rep.bump("fault_original_released_while_call_result_held", 1);
                        for j in 0..(20 + (*churn as usize % 3) * 60) {
                            let junk = self.c(&format!("{{\"junk\":[{},{{\"j\":{}}}]}}", j, j));
                            let jr = tsrun_json_parse(ctx, junk);
                            if !jr.value.is_null() {
                                tsrun_value_free(jr.value);
                            }
                        }
                        self.forget_error(c);
                        if let Some(hi) = self.push_handle(alias, c, model) {
                            self.check_model(c, hi, "call result read after the original handle was released");
                        }
                    }
                }
                Op::SettlePromise(c, ok) => {
                    if let Some(c) = self.live_ctx(*c) {
                        self.recheck_error(c);
                        let ctx = self.ctxs[c].ptr;
                        if let Some(pos) = self.ctxs[c].promises.iter().position(|(hi, settled, _)| !*settled && !self.hs[*hi].freed) {
                            let (hi, _, oid) = self.ctxs[c].promises[pos];
                            self.ctxs[c].promises[pos].1 = true;
                            let id_model = Some(oid);
                            if ok % 3 != 0 {
                                let doc = format!("{{\"late\":{}}}", id_model.unwrap_or(0));
                                let d = self.c(&doc);
                                let vr = tsrun_json_parse(ctx, d);
                                let r = tsrun_resolve_promise(ctx, self.hs[hi].ptr, vr.value);
                                self.unit_result(c, r, "tsrun_resolve_promise", false);
                                if !vr.value.is_null() {
                                    tsrun_value_free(vr.value);
                                }
                                self.forget_error(c);
                            } else {
                                let e = self.c("late failure");
                                let r = tsrun_reject_promise(ctx, self.hs[hi].ptr, e);
                                self.unit_result(c, r, "tsrun_reject_promise", false);
                                self.ctxs[c].prepared = self.ctxs[c].prepared.filter(|p| *p != 1 && *p != 2 && *p != 101);
                            }
                        }
                    }
                }
            }
        }
    }
}

pub fn generate_history(rng: &mut Rng) -> Scn {
    let n = if rng.chance(0.6) { rng.range(5, 40) } else { rng.range(40, 200) } as usize;
    let mut ops = vec![Op::NewCtx];
    let w: [u32; 39] = [
        1, 1, 8, 6, 5, 5, 4, 5, 4, 8, 6, 6, 8, 2, 2, 5, 3, 2, 4, 5, 4, 7, 3, 3, 5, 5, 4, 4, 2, 1, 2, 3, 9, 4, 5, 4, 2, 2, 2,
    ];
    for _ in 0..n {
        let a = (rng.next_u64() & 0xff) as u8;
        let b = (rng.next_u64() & 0xffff) as u16;
        let c = (rng.next_u64() & 0xff) as u8;
        let d = (rng.next_u64() & 0xffff) as u16;
        ops.push(match rng.weighted(&w) {
            0 => Op::NewCtx,
            1 => Op::FreeCtx(a),
            2 => Op::Prepare(a, if d % 4 == 0 { 240 + (c % 16) } else { c }),
            3 => Op::Run(a),
            4 => Op::Steps(a, 1 + b % 300),
            5 => Op::MkPrim(a, c),
            6 => Op::MkString(a, c),
            7 => Op::MkObject(a),
            8 => Op::MkArray(a),
            9 => Op::JsonParse(a, c),
            10 => Op::Inspect(b),
            11 => Op::Get(a, b, c),
            12 => Op::Set(a, b, c, d),
            13 => Op::Has(a, b, c),
            14 => Op::Delete(a, b, c),
            15 => Op::Keys(a, b),
            16 => Op::ArrGet(a, b, c),
            17 => Op::ArrSet(a, b, c, d),
            18 => Op::ArrPush(a, b, d),
            19 => Op::Stringify(a, b),
            20 => Op::Dup(a, b),
            21 => Op::Free(b),
            22 => Op::Call(a, b, d, c),
            23 => Op::CallMethod(a, b, c),
            24 => Op::SetGlobal(a, c, b),
            25 => Op::GetGlobal(a, c),
            26 => Op::NativeFn(a, if d % 5 == 0 { 248 + (c % 8) } else { c }),
            27 => Op::GcStats(a),
            28 => Op::GetExport(a, c),
            29 => Op::ExportNames(a),
            30 => Op::ProvideModule(a, c),
            31 => Op::NullCalls(c),
            32 => Op::Answer(a, c, b, rng.chance(0.6), (d & 0xff) as u8),
            33 => Op::SettlePromise(a, c),
            34 => Op::DetachChild(a, b, c, (d & 0xff) as u8),
            35 => Op::DetachAlias(a, b, c % 2 == 0, (d & 0xff) as u8),
            36 => Op::CallSelfWriter(a, c),
            37 => Op::CallNativeWithNative(a, c),
            _ => Op::Episode(a % 6, c, (d & 0xff) as u8),
        });
    }
    Scn {
        ops,
        gc_pm: *rng.pick(&[0u32, 0, 10, 100, 500]),
        gc_seed: rng.next_u64(),
        isolated: false,
    }
}

pub fn execute_history(scn: &Scn) -> RunReport {
    let mut rep = RunReport::default();
    tsrun::verif::reset();
    if scn.gc_pm > 0 {
        let (pm, seed) = (scn.gc_pm as u64, scn.gc_seed);
        tsrun::verif::set_gc_decider(Some(Box::new(move |i| {
            let mut s = seed ^ i.wrapping_mul(0x9E37_79B9_7F4A_7C15);
            crate::rng::splitmix64(&mut s) % 1000 < pm
        })));
    }
    tsrun::verif::set_fuel(Some(5_000_000));
    let trace;
    {
        let mut ex = Exec { private: Vec::new(), rep: &mut rep, ctxs: Vec::new(), hs: Vec::new(), trace: String::new(), keep_c: Vec::new() };
        ex.run(scn);
        trace = ex.trace.clone();
    }
    let c = tsrun::verif::counters();
    rep.bump("collections_injected", c.injected);
    rep.bump("probe_collection_inside_native_callback", c.collections_nested.min(1));
    let stale = tsrun::verif::take_stale_derefs();
    if std::env::var("TSIM_C17_TRACE").is_ok() {
        eprintln!("C17 trace: {}\nstale: {:?}", trace.replace(';', ";\n"), stale);
    }
    if !stale.is_empty() && rep.failure.is_none() {
        rep.fail(Failure::new("stale_deref", format!("{:?}", stale[0]), json!({"n": stale.len()})));
    }
    tsrun::verif::set_gc_decider(None);
    tsrun::verif::set_fuel(None);
    rep.sim_instructions = c.instructions;
    rep.nontrivial = trace.contains("complete:") || trace.contains("order") || trace.contains("free_ctx");
    rep.trace_hash = hash_str(&format!("{:?}|{}", scn.ops.len(), trace));
    rep.bump("api_calls", scn.ops.len() as u64);
    rep
}

impl Check for C17 {
    type Scn = Scn;
    fn id(&self) -> &'static str {
        "C17"
    }
    fn rule(&self) -> String {
        "histories of 5-200 calls over 62 exported tsrun_* functions from a handle table (live values by kind, survivors of a freed context, NULL, primitives incl. NaN, invalid UTF-8 and embedded NUL through the _len constructors); fault and schedule kinds: context freed with live handles and unanswered orders, order responses released right after tsrun_fulfill_orders followed by allocation churn, collections injected (H2, p in {0,0.01,0.1,0.5}) between and inside calls, native callbacks that return NULL / an error / a duplicate of an argument / re-enter the API (object_new, set, json_parse, get, create_pending_order), duplicate handles, values freed before or after their context, every entry point with NULL context and NULL handles. Every history runs in a worker process natively and under AddressSanitizer. non-trivial = a script ran to an end, an order crossed the API, or a context was freed mid-history; distinct = distinct (call count, event trace). Also: callbacks that return one of the handles they were given; programs that call one host function directly and from a promise handler running while the host settles the promise, and that issue batch orders; order payload handles (owned by the context) kept and inspected later; self-contained episodes: an internal module with object VALUE exports (export names built in one scratch buffer) registered after 0-129 allocations and imported by a script; a console callback fed texts with U+0000 and non-ASCII characters, compared byte for byte".into()
    }
    fn components(&self) -> Value {
        json!({"real": ["all exported tsrun_* functions of src/ffi (feature c-api)", "Interpreter behind the C API", "gc.rs"],
               "stub": ["C host (Rust harness calling through extern \"C\" declarations)", "native callbacks", "collector schedule (H2)"],
               "not_run": ["tsrun_set_regexp_provider (custom regexp callbacks)", "a real C compiler"]})
    }
    fn assumptions(&self) -> Vec<String> {
        vec![
            "the harness never commits a contract violation the header forbids: no double free, no use of a freed handle, strings freed with the matching function; order payload handles are left to the context as the header says".into(),
            "the JSON model of a host-built value is dropped as soon as the value may be aliased or holds something not JSON-able, so equality is only demanded where the expected contents are certain".into(),
        ]
    }
    fn generate(&self, rng: &mut Rng, _idx: usize, _tier: Tier) -> Scn {
        generate_history(rng)
    }
    fn shrink(&self, scn: &Scn) -> Vec<Scn> {
        let mut out = Vec::new();
        let n = scn.ops.len();
        let mut chunk = n / 2;
        while chunk >= 1 {
            let mut start = 1;
            while start < n {
                let end = (start + chunk).min(n);
                let mut ops = scn.ops.clone();
                ops.drain(start..end);
                out.push(Scn { ops, ..scn.clone() });
                start += chunk;
            }
            if chunk == 1 {
                break;
            }
            chunk /= 2;
        }
        if scn.gc_pm != 0 {
            out.push(Scn { gc_pm: 0, ..scn.clone() });
        }
        out
    }
    fn execute(&self, scn: &Scn) -> RunReport {
        if scn.isolated {
            return run_isolated(scn);
        }
        execute_history(scn)
    }
}

// ───────────────────────────── worker processes ─────────────────────────────

fn scenario_of(seed: u64, i: usize) -> Scn {
    let sid = crate::rng::stream_id("C17/histories");
    let mut r = Rng::new(crate::rng::derive(seed, sid, i as u64));
    generate_history(&mut r)
}

pub fn worker(seed: u64, from: usize, to: usize) {
    use std::io::Write;
    let out = std::io::stdout();
    for i in from..to {
        let scn = scenario_of(seed, i);
        {
            let mut o = out.lock();
            let _ = writeln!(o, "S {}", i);
            let _ = o.flush();
        }
        let rep = execute_history(&scn);
        let counters = serde_json::to_string(&rep.counters).unwrap_or_default();
        let mut o = out.lock();
        let _ = writeln!(
            o,
            "R {} {:x} {} {} {}",
            i,
            rep.trace_hash,
            rep.nontrivial as u8,
            rep.failure.as_ref().map(|f| format!("{}", f.clause)).unwrap_or_else(|| "-".into()),
            counters
        );
        let _ = o.flush();
    }
}

pub fn exec_one_from_stdin() -> i32 {
    let mut buf = String::new();
    let _ = std::io::Read::read_to_string(&mut std::io::stdin(), &mut buf);
    match serde_json::from_str::<Scn>(&buf) {
        Ok(scn) => {
            let rep = execute_history(&scn);
            match rep.failure {
                Some(f) => println!("FAIL {} {}", f.clause, f.observed.replace('\n', " ")),
                None => println!("OK {:x} {}", rep.trace_hash, rep.nontrivial as u8),
            }
            0
        }
        Err(e) => {
            eprintln!("bad scenario: {}", e);
            2
        }
    }
}

pub fn run_isolated(scn: &Scn) -> RunReport {
    // natively first; a history that the native worker survives is run again under the
    // AddressSanitizer build (when ./check built one), which is where the batch found the
    // sanitizer-only failures, so that their replay files reproduce
    let native = std::env::var("TSIM_MEM_EXE").ok().map(std::path::PathBuf::from).or_else(|| std::env::current_exe().ok()).unwrap_or_default();
    let rep = run_isolated_with(scn, &native);
    if rep.failure.is_some() || std::env::var("TSIM_MEM_EXE").is_ok() {
        return rep;
    }
    let asan = std::env::current_exe().ok().and_then(|e| e.parent().and_then(|p| p.parent()).and_then(|p| p.parent()).map(|p| p.join("target-asan/x86_64-unknown-linux-gnu/release/tsim")));
    match asan {
        Some(a) if a.exists() && a != native => {
            let r2 = run_isolated_with(scn, &a);
            if r2.failure.is_some() { r2 } else { rep }
        }
        _ => rep,
    }
}

fn run_isolated_with(scn: &Scn, exe: &std::path::Path) -> RunReport {
    use std::io::Write;
    let mut rep = RunReport::default();
    let mut inner = scn.clone();
    inner.isolated = false;
    let json = serde_json::to_string(&inner).unwrap_or_default();
    let child = std::process::Command::new(exe)
        .env("ASAN_OPTIONS", "detect_leaks=0:abort_on_error=0:exitcode=99")
        .arg("c17-exec-one")
        .stdin(std::process::Stdio::piped())
        .stdout(std::process::Stdio::piped())
        .stderr(std::process::Stdio::piped())
        .spawn();
    let Ok(mut child) = child else {
        rep.fail(Failure::new("harness_cannot_spawn_worker", "spawn failed", json!({})));
        return rep;
    };
    if let Some(mut si) = child.stdin.take() {
        let _ = si.write_all(json.as_bytes());
    }
    match child.wait_with_output() {
        Ok(o) => {
            let stdout = String::from_utf8_lossy(&o.stdout).to_string();
            let stderr = String::from_utf8_lossy(&o.stderr).to_string();
            if o.status.success() {
                if let Some(l) = stdout.lines().find(|l| l.starts_with("FAIL ")) {
                    let mut it = l.splitn(3, ' ');
                    let _ = it.next();
                    let clause = it.next().unwrap_or("?");
                    rep.fail(Failure::new(clause, it.next().unwrap_or(""), json!({"isolated": true})));
                } else if let Some(l) = stdout.lines().find(|l| l.starts_with("OK ")) {
                    let mut it = l.split(' ');
                    let _ = it.next();
                    rep.trace_hash = it.next().and_then(|h| u64::from_str_radix(h, 16).ok()).unwrap_or(0);
                    rep.nontrivial = it.next() == Some("1");
                }
            } else {
                use std::os::unix::process::ExitStatusExt;
                let how = format!("code={:?} signal={:?}", o.status.code(), o.status.signal());
                let asan = stderr.contains("AddressSanitizer");
                let clause = if asan { "memory_error_reported_by_sanitizer" } else { "worker_process_died" };
                let ex: String = stderr.lines().filter(|l| l.contains("ERROR") || l.contains("SUMMARY") || l.contains("panicked") || l.contains("free")).take(3).collect::<Vec<_>>().join(" | ");
                rep.fail(Failure::new(clause, how.clone(), json!({"how": how, "stderr_excerpt": ex.chars().take(600).collect::<String>()})));
            }
        }
        Err(e) => rep.fail(Failure::new("harness_cannot_wait_worker", e.to_string(), json!({}))),
    }
    rep
}

pub fn strata(
    seed: u64,
    n: usize,
    threads: usize,
    cov: &mut std::collections::BTreeMap<String, Value>,
    assume: &mut Vec<String>,
    xs: &mut ExtraStats,
) -> Vec<(Failure, Value)> {
    let mut fails: Vec<(Failure, Value)> = Vec::new();
    let exe = std::env::current_exe().unwrap_or_default();
    let asan_exe = exe.parent().and_then(|p| p.parent()).and_then(|p| p.parent()).map(|p| p.join("target-asan/x86_64-unknown-linux-gnu/release/tsim"));
    let mut variants: Vec<(&str, std::path::PathBuf, usize)> = vec![("native", exe.clone(), n)];
    if let Some(a) = asan_exe
        && a.exists()
    {
        variants.push(("asan", a, n / 2));
    } else {
        assume.push("no AddressSanitizer build of tsim found: histories ran natively only (a dead worker is still a violation)".into());
    }
    for (name, bin, count) in variants {
        let w = threads.max(1);
        let per = count.div_ceil(w);
        let mut children = Vec::new();
        for k in 0..w {
            let (from, to) = (k * per, ((k + 1) * per).min(count));
            if from >= to {
                break;
            }
            if let Ok(c) = std::process::Command::new(&bin)
                .args(["c17-worker", &seed.to_string(), &from.to_string(), &to.to_string()])
                .env("ASAN_OPTIONS", "detect_leaks=0:abort_on_error=0:exitcode=99")
                .stdout(std::process::Stdio::piped())
                .stderr(std::process::Stdio::piped())
                .spawn()
            {
                children.push((from, to, c));
            }
        }
        let mut done = 0u64;
        let mut distinct: std::collections::HashSet<String> = Default::default();
        let mut counters: std::collections::BTreeMap<String, u64> = Default::default();
        for (from, to, c) in children {
            let Ok(o) = c.wait_with_output() else { continue };
            let stdout = String::from_utf8_lossy(&o.stdout).to_string();
            let (mut last_started, mut last_done): (Option<usize>, Option<usize>) = (None, None);
            for l in stdout.lines() {
                let p: Vec<&str> = l.splitn(6, ' ').collect();
                if p.first() == Some(&"S") {
                    last_started = p.get(1).and_then(|x| x.parse().ok());
                } else if p.first() == Some(&"R") {
                    last_done = p.get(1).and_then(|x| x.parse().ok());
                    done += 1;
                    if p.get(3) == Some(&"1") {
                        distinct.insert(p.get(2).unwrap_or(&"").to_string());
                    }
                    if let Some(cj) = p.get(5)
                        && let Ok(m) = serde_json::from_str::<std::collections::BTreeMap<String, u64>>(cj)
                    {
                        for (k, v) in m {
                            *counters.entry(k).or_insert(0) += v;
                        }
                    }
                    if let Some(cl) = p.get(4)
                        && *cl != "-"
                        && fails.len() < 4
                        && let Some(i) = last_done
                    {
                        let mut scn = scenario_of(seed, i);
                        scn.isolated = true;
                        fails.push((Failure::new(cl, format!("{} history {}", name, i), json!({"variant": name, "index": i})), serde_json::to_value(&scn).unwrap_or_default()));
                    }
                }
            }
            if !o.status.success() && fails.len() < 4 {
                let culprit = match (last_started, last_done) {
                    (Some(s), Some(d)) if s != d => Some(s),
                    (Some(s), None) => Some(s),
                    _ => None,
                };
                let stderr = String::from_utf8_lossy(&o.stderr).to_string();
                let asan = stderr.contains("AddressSanitizer");
                let clause = if asan { "memory_error_reported_by_sanitizer" } else { "worker_process_died" };
                if let Some(i) = culprit {
                    let mut scn = scenario_of(seed, i);
                    scn.isolated = true;
                    fails.push((
                        Failure::new(clause, format!("{} worker [{}..{}) died at history {}", name, from, to, i),
                            json!({"variant": name, "index": i, "stderr_excerpt": stderr.lines().filter(|l| l.contains("ERROR") || l.contains("SUMMARY")).take(3).collect::<Vec<_>>().join(" | ")})),
                        serde_json::to_value(&scn).unwrap_or_default(),
                    ));
                }
            }
        }
        xs.evaluations += done;
        xs.distinct_nontrivial += distinct.len() as u64;
        for (k, v) in &counters {
            *xs.counters.entry(format!("{}_{}", name, k)).or_insert(0) += *v;
        }
        if name == "native" {
            for i in 0..2 {
                xs.samples.push(serde_json::to_value(scenario_of(seed, i)).unwrap_or_default());
            }
        }
        cov.insert(format!("histories_{}", name), json!({"histories": done, "distinct_nontrivial": distinct.len(), "worker_processes": w}));
    }
    fails
}
