//! C19 — All ways of running a program agree.
//!
//! The same program text is executed by five drivers, each a different simulated host in front
//! of the real interpreter: D1 eval() (+ step() after suspensions), D2 prepare()+step(), D3 as D2
//! with seeded host activity between steps, D4 C API tsrun_run, D5 C API tsrun_step loop. The
//! host answer / delivery schedule is fixed per scenario and identical for every driver. A module
//! text is also run in three roles: entry program, host-provided dependency, internal source module.

use crate::capi::run_capi;
use crate::framework::{Check, Failure, RunReport, Tier};
use crate::host::{Driver, GcSched, Inject, Outcome, RunSpec, run_solo};
use crate::proggen::{GenCfg, HoleVariant, Node};
use crate::progscn::ProgCase;
use crate::rng::{Rng, Tape, hash_str};
use serde::{Deserialize, Serialize};
use serde_json::{Value, json};
use std::collections::BTreeMap;

#[derive(Clone, Debug, Serialize, Deserialize)]
pub struct Scn {
    pub case: ProgCase,
    /// host-provided modules the program imports (path -> source), none for most programs
    pub imports: BTreeMap<String, String>,
    /// a module text for the role comparison (sync, exports `out` and a default)
    pub role_module: Option<ProgCase>,
    /// how the importing program of the role comparison refers to the module: 0 named/default
    /// import, 1 re-export list between two own exports (no import at all), 2 namespace import,
    /// 3 `export * as ns` between two own exports
    #[serde(default)]
    pub role_main: u8,
    pub host_activity_pm: u32,
    pub fuel: u64,
    /// collections injected at allocations (H2 seam), the same policy for every driver; the
    /// threshold stays at the default because the C API cannot change it
    #[serde(default = "no_inject")]
    pub gc_inject: Inject,
    /// role comparison with a retry: the module body fails until the host has set a global flag;
    /// each role is run, fails, the flag is set on the same interpreter, and the role is run again
    #[serde(default)]
    pub role_retry: bool,
    /// every driver's host answers each import first with a stub and then with the real source
    #[serde(default)]
    pub stub_then_real: bool,
}

fn no_inject() -> Inject {
    Inject::None
}

pub struct C19;

fn normalised(o: &Outcome) -> String {
    let res = if o.result.starts_with("error:") {
        // C hosts see only the display text of an error: compare its first line everywhere
        format!("error:{}", o.error_text.clone().unwrap_or_else(|| o.result.trim_start_matches("error:").to_string()))
    } else {
        o.result.clone()
    };
    format!("{}\n#console\n{}\n#traffic\n{}\n#exports\n{:?}", res, o.console.join("\n"), o.traffic.join("\n"), o.exports)
}

fn base_spec(scn: &Scn, driver: Driver) -> RunSpec {
    let gc = GcSched { inject: scn.gc_inject.clone(), ..GcSched::threshold(100) };
    let mut s = scn.case.spec(driver, gc, Tape::from_vec(vec![]), scn.fuel);
    s.modules = scn.imports.clone();
    s.stub_then_real = scn.stub_then_real;
    s.linked_promises = true;
    s
}

fn role_text(case: &ProgCase) -> String {
    // replace the final expression statement by exports
    let mut t = case.tree.clone();
    if let Some(last) = t.kids.last_mut() {
        let expr = last.pre.clone();
        last.pre = format!(
            "export const out: string = {};\nexport default 7;\nlet rc: number = 0;\nexport {{ rc as renamed_counter }};\nexport function rbump(): number {{ rc += 1; return rc; }}\nexport let plain_counter: number = 10;\nexport function pbump(): void {{ plain_counter += 1; }}\nrbump(); rbump(); pbump();\nconsole.log(\"role body ran\");",
            expr
        );
    }
    let mut s = String::new();
    t.render(&mut s, 0);
    s
}

impl Check for C19 {
    type Scn = Scn;
    fn id(&self) -> &'static str {
        "C19"
    }
    fn rule(&self) -> String {
        "progGen scripts and modules (with and without host-provided imports, host holes answered with values / errors / deferred order-linked promises, planted uncaught errors) run by five drivers with one fixed host schedule: eval, prepare+step, prepare+step with seeded host activity between steps (call_depth, gc_stats, export names, guards, unrelated JSON objects), C API tsrun_run, C API tsrun_step; plus a synchronous module text run as entry program, as host-provided dependency and as InternalModule::source. Oracle: identical observable history (non-Continue results with payloads, console, final value or first line of the error text, exports) across drivers; identical exported values and console across roles. non-trivial = the program did more than complete at once (suspended, imported, or failed) or the role stratum ran; distinct = distinct digest of the D2 history. Also: the author-written corpus through all five drivers; one collection-injection policy (H2 seam) for every driver; batch orders incl. never-awaited ones; console text with U+0000; a failing module body must report the same error in all three roles; role comparison with a retry (body fails until the host sets a global flag, second attempt compared)".into()
    }
    fn components(&self) -> Value {
        json!({"real": ["Interpreter::eval / prepare / step", "ffi: tsrun_prepare, tsrun_run, tsrun_step, tsrun_fulfill_orders, tsrun_create_pending_order, tsrun_create_order_promise, tsrun_resolve/reject_promise, tsrun_provide_module, tsrun_get_export(_names), internal module registration, console callback", "module roles: entry / provided / InternalModule::source"],
               "stub": ["five driver hosts with one fixed answer and delivery schedule", "C-side order() native callback"],
               "not_run": ["tsrun CLI binary", "wasm"]})
    }
    fn assumptions(&self) -> Vec<String> {
        vec![
            "the C API exposes no time/random providers and no GC threshold: programs avoid clock and randomness, all drivers run at the default threshold".into(),
            "a C host sees errors only as display text: the first line of that text is what is compared for every driver".into(),
            "Continue counts are not compared (drivers legitimately differ there)".into(),
        ]
    }

    fn generate(&self, rng: &mut Rng, _idx: usize, _tier: Tier) -> Scn {
        let holes = if rng.chance(0.6) { 1 + rng.below(4) } else { 0 };
        let mut cfg = GenCfg::swarm(rng, holes);
        cfg.size = 4 + rng.below(30);
        cfg.f_timeish = false;
        cfg.hole_defer_reject = false;
        cfg.f_batch_unawaited = true;
        // (the C-side host of the driver comparison does not call script functions)
        cfg.f_host_resolver = false;
        // (the C API registers native internal modules only: no lib:util in the C drivers)
        cfg.f_lib = false;
        // the C-side order() is a native callback taking an object payload: wrapped holes only
        let variant = if holes == 0 { HoleVariant::Sync } else { HoleVariant::Order };
        let mut case = ProgCase::generate(rng, cfg, variant, "v");
        let mut imports = BTreeMap::new();
        if rng.chance(0.4) {
            // console text outside ASCII (the C host receives pointer + byte length)
            let at = 3.min(case.tree.kids.len());
            case.tree.kids.insert(at, Node::leaf("console.log(\"naïve ✓ 日本語\", 1, \"é\"); console.error(\"érr 😀\"); console.warn(\"ü\".repeat(3)); console.log(\"nul\\u0000inside\", \"\\u0000\");"));
        }
        if rng.chance(0.35) {
            case.module_path = Some("/app/main.ts".into());
            // a module has exports: one early, one renamed, one after the main work
            let n = case.tree.kids.len();
            let at = 3.min(n);
            case.tree.kids.insert(at, Node::leaf("export const early_export: number = 11;\nlet hidden_local: number = 1;\nexport { hidden_local as renamed_export };"));
            let n = case.tree.kids.len();
            case.tree.kids.insert(n - 1, Node::leaf("export const late_export: string = \"late\"; hidden_local = 2;"));
        }
        if rng.chance(0.3) {
            // the program imports a host-provided module (and that one a second one)
            imports.insert("/lib/a.ts".to_string(), "import { b } from \"./b.ts\"; console.log(\"run a\"); export const a: number = b + 1;".to_string());
            imports.insert("/lib/b.ts".to_string(), "console.log(\"run b\"); export const b: number = 41;".to_string());
            if let Some(first) = case.tree.kids.first_mut() {
                first.pre = format!("import {{ a as imp_a }} from \"/lib/a.ts\";\n{}", first.pre);
            }
        }
        if rng.chance(0.2) {
            crate::props::c11::plant_crash(&mut case.tree, rng);
            crate::props::c11::strip_top_catch(&mut case.tree, "v");
        }
        let role_module = if rng.chance(0.4) {
            let mut rcfg = GenCfg::swarm(rng, 0);
            rcfg.size = 4 + rng.below(16);
            rcfg.sync_main = true;
            rcfg.f_timeish = false;
            rcfg.f_async_helpers = false;
            let mut rc = ProgCase::generate(rng, rcfg, HoleVariant::Sync, "r");
            if rng.chance(0.3) {
                // the module body dies of an uncaught error: every role must report the same error
                crate::props::c11::plant_crash(&mut rc.tree, rng);
                crate::props::c11::strip_top_catch(&mut rc.tree, "r");
            }
            Some(rc)
        } else {
            None
        };
        let role_main = rng.below(4) as u8;
        let gc_inject = match rng.below(4) {
            0 => Inject::Prob { pm: *rng.pick(&[10u32, 100, 500]), seed: rng.next_u64() },
            _ => Inject::None,
        };
        Scn { case, imports, role_module, role_main, host_activity_pm: *rng.pick(&[20u32, 200, 1000]), fuel: 400_000, gc_inject, role_retry: rng.chance(0.25), stub_then_real: rng.chance(0.3) }
    }

    fn generate_stream(&self, stream: &str, rng: &mut Rng, idx: usize, tier: Tier) -> Scn {
        if stream != "corpus" {
            return self.generate(rng, idx, tier);
        }
        // author-written programs through all five drivers (no clock / randomness: the C API has no providers)
        let c = crate::corpus::corpus();
        let timeish = |e: &crate::corpus::Entry| ["Math.random", "Date", "console.time", "performance"].iter().any(|w| e.src.contains(w) || e.modules.values().any(|m| m.contains(w)));
        let list: Vec<&crate::corpus::Entry> = c.snippets.iter().chain(c.examples.iter()).filter(|e| !timeish(e)).collect();
        let e = list[idx % list.len().max(1)];
        let mut case = e.to_case();
        if case.module_path.is_none() && !e.src.contains("import ") && rng.chance(0.3) {
            case.module_path = Some("/app/main.ts".into());
        }
        let fuel = if e.modules.is_empty() { 400_000 } else { 1_500_000 };
        Scn { case, imports: e.modules.clone(), role_module: None, role_main: 0, host_activity_pm: *rng.pick(&[20u32, 200, 1000]), fuel, gc_inject: Inject::None, role_retry: false, stub_then_real: idx % 3 == 0 }
    }

    fn shrink(&self, scn: &Scn) -> Vec<Scn> {
        let mut out = Vec::new();
        if scn.role_module.is_some() {
            out.push(Scn { role_module: None, ..scn.clone() });
            if scn.role_main != 0 {
                out.push(Scn { role_main: 0, ..scn.clone() });
            }
        }
        for c in scn.case.shrink_tree() {
            out.push(Scn { case: c, ..scn.clone() });
        }
        if let Some(r) = &scn.role_module {
            for c in r.shrink_tree() {
                out.push(Scn { role_module: Some(c), ..scn.clone() });
            }
        }
        if scn.case.module_path.is_some() {
            let mut c = scn.case.clone();
            c.module_path = None;
            out.push(Scn { case: c, ..scn.clone() });
        }
        out
    }

    fn execute(&self, scn: &Scn) -> RunReport {
        let mut rep = RunReport::default();
        let d2 = run_solo(&base_spec(scn, Driver::Step));
        rep.sim_instructions += d2.counters.instructions;
        let d1 = run_solo(&base_spec(scn, Driver::Eval));
        let mut s3 = base_spec(scn, Driver::Step);
        s3.host_activity_pm = scn.host_activity_pm;
        let d3 = run_solo(&s3);
        rep.bump("host_activity_between_steps", d3.host_activity);
        let capi = |use_run: bool| -> Outcome {
            let spec = base_spec(scn, Driver::Step);
            tsrun::verif::reset();
            tsrun::verif::set_fuel(Some(spec.fuel));
            crate::host::install_gc(&spec.gc, 0);
            let mut o = run_capi(&spec, use_run);
            if tsrun::verif::fuel_exhausted() {
                o.result = "fuel".into();
                o.error_text = None;
            }
            tsrun::verif::set_gc_decider(None);
            tsrun::verif::set_fuel(None);
            o
        };
        let d4 = capi(true);
        rep.bump("collections_injected_in_capi_driver", tsrun::verif::counters().injected);
        let d5 = capi(false);
        let reference = normalised(&d2);
        for (name, o) in [("eval", &d1), ("step_with_host_activity", &d3), ("capi_run", &d4), ("capi_step", &d5)] {
            let got = normalised(o);
            if got != reference && rep.failure.is_none() {
                let first = reference.lines().zip(got.lines()).position(|(a, b)| a != b).unwrap_or(0);
                rep.fail(Failure::new(
                    &format!("driver_{}_differs_from_prepare_step", name),
                    got.lines().nth(first).unwrap_or("").chars().take(200).collect::<String>(),
                    json!({"driver": name, "first_differing_line": first, "prepare_step": reference.chars().take(2500).collect::<String>(), "this_driver": got.chars().take(2500).collect::<String>()}),
                ));
            }
        }
        // a second program under the SAME module path on the same interpreter, which fails or is
        // left suspended; what the host then reads (result, exports) must not depend on whether the
        // two runs were started with prepare() or with eval()
        if scn.case.module_path.is_some() && d2.result.starts_with("complete:") && rep.failure.is_none() {
            let second = |driver: Driver| -> (Outcome, Outcome) {
                tsrun::verif::reset();
                let first_spec = base_spec(scn, driver);
                let mut h = crate::host::new_interp_with(first_spec.clock_start, first_spec.random_seed, &first_spec.internal_sources);
                let a = crate::props::c11::run_to_end(&mut h, first_spec.clone());
                let mut again = first_spec;
                again.source = "export const second_only: number = 1;\nconsole.log(\"second run\");\nfunction die(): any { throw new RangeError(\"second run dies\"); }\ndie();\nexport const never: number = 2;".to_string();
                let b = crate::props::c11::run_to_end(&mut h, again);
                tsrun::verif::set_fuel(None);
                (a, b)
            };
            let (_, by_step) = second(Driver::Step);
            let (_, by_eval) = second(Driver::Eval);
            rep.bump("second_run_under_same_path", 1);
            let view = |o: &Outcome| format!("{} | {:?} | {:?}", o.error_text.clone().unwrap_or(o.result.clone()), o.console, o.exports);
            if view(&by_step) != view(&by_eval) {
                rep.fail(Failure::new(
                    "second_run_under_same_path_differs_between_prepare_and_eval",
                    view(&by_eval).chars().take(200).collect::<String>(),
                    json!({"prepare_step": view(&by_step), "eval": view(&by_eval)}),
                ));
            }
        }
        rep.bump("suspensions", d2.suspensions);
        rep.bump("import_rounds", d2.import_rounds);
        rep.bump("runs_ending_in_error", d2.result.starts_with("error:") as u64);
        rep.bump("deferred_settled", d2.deferred_settled);
        let mut nontrivial = d2.suspensions > 0 || d2.import_rounds > 0 || d2.result.starts_with("error:");
        // roles
        if let Some(rm) = &scn.role_module
            && rep.failure.is_none()
        {
            nontrivial = true;
            rep.bump("role_comparisons", 1);
            let text = if scn.role_retry {
                format!("if ((globalThis as any).__ready !== true) {{ throw new Error(\"not ready\"); }}\n{}", role_text(rm))
            } else {
                role_text(rm)
            };
            let mk = |source: String, path: Option<&str>| -> RunSpec {
                let mut s = rm.spec(Driver::Step, GcSched::threshold(100), Tape::from_vec(vec![]), scn.fuel);
                s.source = source;
                s.path = path.map(|p| p.to_string());
                s
            };
            // (a) entry program
            // one role = one interpreter; with `role_retry` the first attempt fails, the host sets
            // the flag with a small script, and the second attempt is what gets compared
            let run_role = |spec: RunSpec| -> Outcome {
                if !scn.role_retry {
                    return run_solo(&spec);
                }
                tsrun::verif::reset();
                let mut h = crate::host::new_interp_with(spec.clock_start, spec.random_seed, &spec.internal_sources);
                let first = crate::props::c11::run_to_end(&mut h, spec.clone());
                let mut flag = spec.clone();
                flag.source = "(globalThis as any).__ready = true; 0".to_string();
                flag.path = None;
                let _ = crate::props::c11::run_to_end(&mut h, flag);
                let mut second = crate::props::c11::run_to_end(&mut h, spec);
                second.console.insert(0, format!("first attempt: {}", first.error_text.clone().unwrap_or(first.result.clone())));
                tsrun::verif::set_fuel(None);
                second
            };
            let a = run_role(mk(text.clone(), Some("/m/T.ts")));
            let a_view = format!(
                "{:?}|{:?}|{:?}|{:?}",
                a.exports.iter().find(|(n, _)| n == "out").map(|(_, v)| v.clone()),
                a.exports.iter().find(|(n, _)| n == "default").map(|(_, v)| v.clone()),
                a.exports.iter().find(|(n, _)| n == "renamed_counter").map(|(_, v)| v.clone()),
                a.exports.iter().find(|(n, _)| n == "plain_counter").map(|(_, v)| v.clone())
            );
            // the program that uses the module, written against a specifier
            let main_for = |spec: &str| -> String {
                match scn.role_main {
                    1 => format!("export const first: number = 1;\nexport {{ out as o2, default as d2, renamed_counter as r2, plain_counter as p2 }} from \"{spec}\";\nexport const last: number = 2;\n0"),
                    2 => format!("import * as ns from \"{spec}\";\nexport const first: number = 1;\nexport const o2: string = ns.out;\nexport const d2: number = ns.default;\nexport const r2: number = ns.renamed_counter;\nexport const p2: number = ns.plain_counter;\nexport const last: number = 2;\n0"),
                    3 => format!("export const first: number = 1;\nexport * as ns from \"{spec}\";\nimport d, {{ out, renamed_counter, plain_counter }} from \"{spec}\";\nexport const o2: string = out;\nexport const d2: number = d;\nexport const r2: number = renamed_counter;\nexport const p2: number = plain_counter;\nexport const last: number = 2;\n0"),
                    _ => format!("import d, {{ out, renamed_counter, plain_counter }} from \"{spec}\";\nexport const first: number = 1;\nexport const o2: string = out;\nexport const d2: number = d;\nexport const r2: number = renamed_counter;\nexport const p2: number = plain_counter;\nexport const last: number = 2;\n0"),
                }
            };
            let view_of = |o: &Outcome| -> String {
                let names: Vec<&str> = o.exports.iter().map(|(n, _)| n.as_str()).filter(|n| *n != "ns").collect();
                format!(
                    "{:?}|{:?}|{:?}|{:?}",
                    o.exports.iter().find(|(n, _)| n == "o2").map(|(_, v)| v.clone()),
                    o.exports.iter().find(|(n, _)| n == "d2").map(|(_, v)| v.clone()),
                    o.exports.iter().find(|(n, _)| n == "r2").map(|(_, v)| v.clone()),
                    o.exports.iter().find(|(n, _)| n == "p2").map(|(_, v)| v.clone())
                ) + &format!("|first={:?}|last={:?}|names={:?}", o.exports.iter().find(|(n, _)| n == "first").map(|(_, v)| v.clone()), o.exports.iter().find(|(n, _)| n == "last").map(|(_, v)| v.clone()), names)
            };
            let a_view = format!("{}|first=Some(\"1\")|last=Some(\"2\")|names=[\"d2\", \"first\", \"last\", \"o2\", \"p2\", \"r2\"]", a_view);
            // (b) host-provided dependency
            let mut sb = mk(main_for("/m/T.ts"), Some("/m/main_b.ts"));
            sb.modules.insert("/m/T.ts".into(), text.clone());
            let b = run_role(sb);
            let b_view = view_of(&b);
            // (c) internal source module
            let mut sc = mk(main_for("app:T"), Some("/m/main_c.ts"));
            sc.internal_sources.insert("app:T".into(), text.clone());
            let c = run_role(sc);
            let c_view = view_of(&c);
            let ok_a = a.result.starts_with("complete:");
            if ok_a {
                for (name, view, o) in [("provided_dependency", &b_view, &b), ("internal_source_module", &c_view, &c)] {
                    if (view != &a_view || o.console != a.console) && rep.failure.is_none() {
                        rep.fail(Failure::new(
                            &format!("role_{}_differs_from_entry", name),
                            view.chars().take(200).collect::<String>(),
                            json!({"role": name, "entry_exports": a_view, "this_role_exports": view, "entry_console": a.console, "this_role_console": o.console,
                                   "entry_result": a.result, "this_role_result": o.result}),
                        ));
                    }
                }
            } else {
                rep.bump("role_module_failed_as_entry", 1);
                // a failing body must fail in every role
                for (name, o) in [("provided_dependency", &b), ("internal_source_module", &c)] {
                    if o.result.starts_with("complete:") && rep.failure.is_none() {
                        rep.fail(Failure::new(
                            &format!("role_{}_completes_although_entry_fails", name),
                            o.result.chars().take(200).collect::<String>(),
                            json!({"entry_result": a.result, "this_role_result": o.result}),
                        ));
                    }
                    // ... with the same error report (first line of the display text) and the same output
                    if a.result.starts_with("error:") && !a.result.starts_with("error:SyntaxError") && (o.error_text != a.error_text || o.console != a.console) && rep.failure.is_none() {
                        rep.fail(Failure::new(
                            &format!("role_{}_reports_another_error_than_entry", name),
                            o.error_text.clone().unwrap_or_else(|| o.result.clone()).chars().take(200).collect::<String>(),
                            json!({"entry_error": a.error_text, "this_role_error": o.error_text, "entry_result": a.result, "this_role_result": o.result, "entry_console": a.console, "this_role_console": o.console}),
                        ));
                    }
                }
            }
        }
        rep.nontrivial = nontrivial;
        rep.trace_hash = hash_str(&reference);
        rep
    }
}

#[allow(dead_code)]
fn _unused(_n: &Node) {}
