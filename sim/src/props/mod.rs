pub mod c02;
pub mod c13;
