pub mod c09;
pub mod c08;
pub mod c12;
pub mod c14;
pub mod c11;
pub mod c07;
pub mod c02;
pub mod c13;
