pub mod c07;
pub mod c02;
pub mod c13;
