pub mod c13;
