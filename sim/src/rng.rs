//! The only source of randomness in the simulator: xoshiro256** seeded through splitmix64.
//! No thread-rng, no clock. One integer decides everything.

#[derive(Clone, Debug)]
pub struct Rng {
    s: [u64; 4],
}

pub fn splitmix64(state: &mut u64) -> u64 {
    *state = state.wrapping_add(0x9E37_79B9_7F4A_7C15);
    let mut z = *state;
    z = (z ^ (z >> 30)).wrapping_mul(0xBF58_476D_1CE4_E5B9);
    z = (z ^ (z >> 27)).wrapping_mul(0x94D0_49BB_1331_11EB);
    z ^ (z >> 31)
}

/// Derive the seed of run `run` of stream `stream` from the master seed.
pub fn derive(master: u64, stream: u64, run: u64) -> u64 {
    let mut st = master ^ stream.wrapping_mul(0xD6E8_FEB8_6659_FD93);
    let a = splitmix64(&mut st);
    let mut st2 = a ^ run.wrapping_mul(0xA076_1D64_78BD_642F);
    splitmix64(&mut st2)
}

pub fn stream_id(name: &str) -> u64 {
    // FNV-1a over the property/stream name: stable across processes.
    let mut h: u64 = 0xcbf29ce484222325;
    for b in name.bytes() {
        h ^= b as u64;
        h = h.wrapping_mul(0x100000001b3);
    }
    h
}

impl Rng {
    pub fn new(seed: u64) -> Self {
        let mut st = seed;
        let s = [
            splitmix64(&mut st),
            splitmix64(&mut st),
            splitmix64(&mut st),
            splitmix64(&mut st),
        ];
        Rng { s }
    }

    pub fn next_u64(&mut self) -> u64 {
        let result = self.s[1].wrapping_mul(5).rotate_left(7).wrapping_mul(9);
        let t = self.s[1] << 17;
        self.s[2] ^= self.s[0];
        self.s[3] ^= self.s[1];
        self.s[1] ^= self.s[2];
        self.s[0] ^= self.s[3];
        self.s[2] ^= t;
        self.s[3] = self.s[3].rotate_left(45);
        result
    }

    /// Uniform in 0..n (n > 0)
    pub fn below(&mut self, n: usize) -> usize {
        if n <= 1 {
            return 0;
        }
        (self.next_u64() % n as u64) as usize
    }

    /// Uniform in lo..=hi
    pub fn range(&mut self, lo: i64, hi: i64) -> i64 {
        if hi <= lo {
            return lo;
        }
        lo + (self.next_u64() % ((hi - lo + 1) as u64)) as i64
    }

    pub fn f64(&mut self) -> f64 {
        (self.next_u64() >> 11) as f64 / (1u64 << 53) as f64
    }

    pub fn chance(&mut self, p: f64) -> bool {
        self.f64() < p
    }

    pub fn pick<'a, T>(&mut self, xs: &'a [T]) -> &'a T {
        let i = self.below(xs.len());
        &xs[i]
    }

    pub fn shuffle<T>(&mut self, xs: &mut [T]) {
        for i in (1..xs.len()).rev() {
            let j = self.below(i + 1);
            xs.swap(i, j);
        }
    }

    pub fn fork(&mut self) -> Rng {
        Rng::new(self.next_u64())
    }

    /// Weighted choice: returns index
    pub fn weighted(&mut self, weights: &[u32]) -> usize {
        let total: u64 = weights.iter().map(|w| *w as u64).sum();
        if total == 0 {
            return 0;
        }
        let mut x = self.next_u64() % total;
        for (i, w) in weights.iter().enumerate() {
            if x < *w as u64 {
                return i;
            }
            x -= *w as u64;
        }
        weights.len() - 1
    }
}

/// A finite tape of choices. Host schedulers draw from it; when it is exhausted every
/// further choice is 0 (the "simplest" option), which is what makes tapes shrinkable
/// and replay files explicit.
#[derive(Clone, Debug, Default, serde::Serialize, serde::Deserialize, PartialEq)]
pub struct Tape {
    pub v: Vec<u32>,
    #[serde(skip)]
    pub pos: usize,
}

impl Tape {
    pub fn random(rng: &mut Rng, len: usize) -> Self {
        Tape {
            v: (0..len).map(|_| (rng.next_u64() & 0xffff) as u32).collect(),
            pos: 0,
        }
    }
    pub fn from_vec(v: Vec<u32>) -> Self {
        Tape { v, pos: 0 }
    }
    pub fn rewind(&mut self) {
        self.pos = 0;
    }
    pub fn next(&mut self, n: usize) -> usize {
        let x = self.v.get(self.pos).copied().unwrap_or(0);
        self.pos += 1;
        if n <= 1 { 0 } else { (x as usize) % n }
    }
    /// true with probability ~ num/den (false when the tape is exhausted)
    pub fn chance(&mut self, num: usize, den: usize) -> bool {
        let x = self.v.get(self.pos).copied().unwrap_or(u32::MAX);
        self.pos += 1;
        if x == u32::MAX {
            return false;
        }
        ((x as usize) % den) < num && x != 0
    }
    pub fn used(&self) -> usize {
        self.pos.min(self.v.len())
    }
}

/// SipHash-free stable 64-bit hash (FNV-1a 64 with avalanche) for trace digests.
pub fn hash_str(s: &str) -> u64 {
    let mut h = stream_id(s);
    h ^= h >> 32;
    h = h.wrapping_mul(0x9E37_79B9_7F4A_7C15);
    h ^ (h >> 29)
}
