#!/usr/bin/env python3
"""tools/add_finding.py <id> <property> <fixed|open> <commit-or-> <clause> <trigger> <witness-or-> <what...>"""
import json, sys
fid, prop, status, commit, clause, trigger, witness = sys.argv[1:8]
what = " ".join(sys.argv[8:])
p = '/verif/known_findings.json'
d = json.load(open(p))
assert not any(f['id'] == fid for f in d['findings']), "duplicate id"
e = {"id": fid, "property": prop, "status": status}
if commit != '-': e["commit"] = commit
e["clause"] = clause; e["trigger"] = trigger
if witness != '-': e["witness"] = witness
e["what"] = (f"fixed: property={prop} {commit} " if status == 'fixed' else "") + what
d['findings'].append(e)
json.dump(d, open(p, 'w'), indent=1, ensure_ascii=False)
print("added", fid)
