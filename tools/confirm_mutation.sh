#!/bin/bash
# tools/confirm_mutation.sh <src-dir with patch.diff demo.rs notes.md> <seeded-id> <property> <check-result-note>
# Confirms in a scratch worktree: suite passes with the change, demo fails with it and passes without it.
# On success stores /verif/seeded/<seeded-id>/{patch.diff,demo.rs,notes.md,meta.json}.
set -u
SRC=$1; SID=$2; PROP=$3; NOTE=${4:-}
WT=/tmp/confirm-wt-$SID
git -C /repo worktree remove --force $WT 2>/dev/null
git -C /repo worktree add -q --detach $WT HEAD || exit 2
cd $WT
export CARGO_NET_OFFLINE=true
res() { echo "$1" | tee -a /tmp/confirm-$SID.log; }
: > /tmp/confirm-$SID.log
cp $SRC/demo.rs tests/zz_seeded_demo.rs
cargo test --offline ${CONFIRM_FEATURES:-} --test zz_seeded_demo > /tmp/confirm-$SID.demo-without.txt 2>&1; W=$?
res "demo without change: exit=$W"
if ! git apply $SRC/patch.diff; then res "PATCH DOES NOT APPLY"; cd /; git -C /repo worktree remove --force $WT; exit 3; fi
cargo test --offline ${CONFIRM_FEATURES:-} --test zz_seeded_demo > /tmp/confirm-$SID.demo-with.txt 2>&1; D=$?
res "demo with change: exit=$D"
rm tests/zz_seeded_demo.rs
cargo test --offline --no-fail-fast > /tmp/confirm-$SID.suite.txt 2>&1; S=$?
FAILED=$(grep -a "test result" /tmp/confirm-$SID.suite.txt | grep -v " 0 failed" | wc -l)
PASSED=$(grep -a "test result" /tmp/confirm-$SID.suite.txt | awk '{s+=$4} END {print s}')
res "suite with change: exit=$S failing_targets=$FAILED passed=$PASSED"
cd /
git -C /repo worktree remove --force $WT
if [ "$W" = 0 ] && [ "$D" != 0 ] && [ "$S" = 0 ] && [ "$FAILED" = 0 ]; then
  mkdir -p /verif/seeded/$SID
  cp $SRC/patch.diff $SRC/demo.rs /verif/seeded/$SID/
  [ -f $SRC/notes.md ] && cp $SRC/notes.md /verif/seeded/$SID/
  python3 - "$SID" "$PROP" "$PASSED" "$NOTE" <<'PY'
import json,sys,subprocess
sid,prop,passed,note=sys.argv[1:5]
head=subprocess.check_output(['git','-C','/repo','rev-parse','--short','HEAD'],text=True).strip()
notes=open(f'/verif/seeded/{sid}/notes.md').read() if True else ''
meta={"id":sid,"breaks_property":prop,"confirmed_against_repo_head":head,
 "needs_to_manifest":"see notes.md (written by the sub-agent that produced the change)",
 "confirmation":{"suite_with_change":f"cargo test --offline --no-fail-fast: all targets ok, {passed} tests passed",
   "demo_with_change":"fails (cargo test --test zz_seeded_demo, exit != 0)","demo_without_change":"passes"},
 "check_result":note}
json.dump(meta,open(f'/verif/seeded/{sid}/meta.json','w'),indent=1)
PY
  res "CONFIRMED -> /verif/seeded/$SID"
else
  res "NOT CONFIRMED"
fi
