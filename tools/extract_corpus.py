#!/usr/bin/env python3
"""Extract the TypeScript snippets the authors wrote in /repo/tests/interpreter/*.rs
(first string argument of eval / eval_result / eval_bytecode / throws_error) into
/verif/corpus/snippets.json. Workload only: their expected values are not used.
Run once by hand (the result is committed); checks never run this script."""
import json, re, sys, os, hashlib

SRC = sys.argv[1] if len(sys.argv) > 1 else "/repo/tests/interpreter"
OUT = sys.argv[2] if len(sys.argv) > 2 else "/verif/corpus/snippets.json"

CALL = re.compile(r'\b(eval|eval_result|eval_bytecode|throws_error|eval_with_gc_stats)\s*\(\s*')

def unescape(s):
    out = []
    i = 0
    while i < len(s):
        c = s[i]
        if c == '\\' and i + 1 < len(s):
            n = s[i + 1]
            if n == 'n': out.append('\n'); i += 2
            elif n == 't': out.append('\t'); i += 2
            elif n == 'r': out.append('\r'); i += 2
            elif n == '0': out.append('\0'); i += 2
            elif n == '\\': out.append('\\'); i += 2
            elif n == '"': out.append('"'); i += 2
            elif n == "'": out.append("'"); i += 2
            elif n == 'u' and i + 2 < len(s) and s[i + 2] == '{':
                j = s.index('}', i)
                out.append(chr(int(s[i + 3:j], 16))); i = j + 1
            elif n == 'x':
                out.append(chr(int(s[i + 2:i + 4], 16))); i += 4
            elif n == '\n':
                i += 2
                while i < len(s) and s[i] in ' \t\n': i += 1
            else:
                out.append(c); i += 1
        else:
            out.append(c); i += 1
    return ''.join(out)

def literal_at(text, pos):
    """Parse a Rust string literal starting at pos; return (value, end) or None."""
    m = re.match(r'r(#*)"', text[pos:])
    if m:
        hashes = m.group(1)
        start = pos + m.end()
        end = text.find('"' + hashes, start)
        if end < 0: return None
        return text[start:end], end + 1 + len(hashes)
    if text[pos] == '"':
        i = pos + 1
        while i < len(text):
            if text[i] == '\\': i += 2; continue
            if text[i] == '"': break
            i += 1
        try:
            return unescape(text[pos + 1:i]), i + 1
        except Exception:
            return None
    return None

snips = []
seen = set()
for fn in sorted(os.listdir(SRC)):
    if not fn.endswith('.rs'): continue
    text = open(os.path.join(SRC, fn), encoding='utf-8').read()
    for m in CALL.finditer(text):
        lit = literal_at(text, m.end())
        if not lit: continue
        src, _ = lit
        if not src.strip() or len(src) > 6000: continue
        h = hashlib.sha1(src.encode()).hexdigest()[:12]
        if h in seen: continue
        seen.add(h)
        snips.append({"file": fn[:-3], "id": h, "src": src})

os.makedirs(os.path.dirname(OUT), exist_ok=True)
json.dump(snips, open(OUT, 'w'), indent=0, ensure_ascii=False)
print(len(snips), "snippets ->", OUT, os.path.getsize(OUT), "bytes")

# ---- examples/**/*.ts: whole author-written programs, with their module graphs ----
EX = "/repo/examples"
EXOUT = os.path.join(os.path.dirname(OUT), "examples.json")
ex = []
for d in sorted(os.listdir(EX)):
    p = os.path.join(EX, d)
    if os.path.isfile(p) and d.endswith('.ts'):
        ex.append({"file": "examples/" + d, "id": d, "src": open(p, encoding='utf-8').read(), "path": "/ex/" + d, "modules": {}})
        continue
    if not os.path.isdir(p): continue
    mods = {}
    for root, _, files in os.walk(p):
        for f in sorted(files):
            if f.endswith('.ts') and not f.endswith('.d.ts'):
                full = os.path.join(root, f)
                rel = os.path.relpath(full, EX)
                mods["/ex/" + rel] = open(full, encoding='utf-8').read()
    if not mods: continue
    mains = [k for k in mods if k.endswith('/main.ts')]
    entries = mains if mains else sorted(mods)
    for e in entries:
        if len(mods[e]) > 20000: continue
        ex.append({"file": "examples/" + d, "id": e[4:], "src": mods[e], "path": e,
                   "modules": {k: v for k, v in mods.items() if k != e}})
json.dump(ex, open(EXOUT, 'w'), indent=0, ensure_ascii=False)
print(len(ex), "example programs ->", EXOUT, os.path.getsize(EXOUT), "bytes")
