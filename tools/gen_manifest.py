#!/usr/bin/env python3
"""Regenerates /verif/MANIFEST.json from the table below (single source of truth for the interface)."""
import json, os, subprocess

NA = {
 "C01": "outcome is a pure function of the program text; no schedule, clock, fault or second party for a simulator to own (DESIGN.md §7)",
 "C03": "metamorphic relation between a program and its type-decorated variant: input generation only, no schedule or fault (DESIGN.md §7)",
 "C04": "agreement of TS run-time constructs with their JS desugaring: pure function of program text (DESIGN.md §7)",
 "C05": "totality/work bound of prepare() over all byte strings: &str in, Result out, nothing to interleave, tear or crash (DESIGN.md §7)",
 "C10": "behaviour as a function of construct size: a parameter sweep over program text, not a schedule (DESIGN.md §7)",
 "C15": "number/text/integer conversions: pure numeric functions of their argument (DESIGN.md §7)",
 "C16": "JSON fidelity over all documents: pure data mapping (DESIGN.md §7)",
 "C18": "path canonicalisation: pure string function (DESIGN.md §7)",
 "C20": "source positions in error reports: function of program text and layout (DESIGN.md §7)",
}

CHECKS = {
 "C17": dict(level="exploration", design="§5 C17",
   text="Seeded search over C-API call histories (5-200 calls over 62 exported functions from a handle table with live values, survivors of freed contexts, NULL and odd primitives), with contexts freed under live handles and pending orders, responses released right after submission, collections injected between and inside calls, re-entrant / failing / NULL-returning native callbacks, callbacks that return one of the handles they were given, a host function called both directly and from a promise handler that runs while the host settles the promise, batch order markers, and self-contained episodes (an internal module with object VALUE exports registered after allocation padding and imported by a script; a console callback fed texts with U+0000 and non-ASCII characters, compared byte for byte). Each history runs in a worker process natively and under AddressSanitizer: survival is the memory oracle; totality (error shapes for NULL / wrong-kind / misuse), validity and lifetime of returned strings, and a JSON model of host-built values as read back and as seen by scripts are checked inline; the H1 stale-dereference log must stay empty.",
   note="Trusted: harness handle discipline (no double free, no use after free by the harness itself), ASan runtime, rustc nightly for the ASan build (absent ASan binary = native only, stated in evidence). The model is dropped wherever aliasing makes expected contents uncertain.",
   technique="deterministic simulation: seeded API call histories with lifetime faults and injected collections, worker processes under ASan as memory oracle"),
 "C06": dict(level="exploration", design="§5 C06",
   text="Simulated host with a watchdog on the simulated clock (H3 instruction counter): generated programs, 13 unbounded loop/recursion templates on trampolined paths and native-argument sweeps (about 330 call shapes incl. catalogue 3: ill-behaved comparators on arrays of 21-100 elements, coercion hooks that write to their own receiver, cyclic prototype chains; 130 call shapes of String/Array/Number/Math/Date/JSON/RegExp/Object natives x boundary arguments: NaN, +-Infinity, +-2^31, 2^32, +-2^53, +-2^63, fractions, non-ASCII text, lone surrogates) are stepped under seeded step and depth budgets in worker processes; per step at most one VM instruction unless a native re-entered the VM (then a fixed bound), the budget stops the run, the interpreter stays usable, no call panics. Resource faults are enumerated in worker processes: 10 allocation templates x 10 sizes up to 2^53; 30 recursion templates (16 call paths, 14 data-graph walkers: JSON, flat, structuredClone, prototype chains, cyclic arrays, regexp nesting) and 12 source-text nesting templates x 4 depths x 3 native stack sizes under a 4 GiB address-space cap; a dead worker is a violation unless the case belongs to a recorded finding.",
   note="Trusted: harness, ulimit, process exit status. Five recorded findings are architectural (native re-entry: unbounded step, native-stack overflow on call paths, on data graphs and on nested program text; unchecked allocation sizes); their cases are listed one by one in known_findings.json; a recursion-template death is attributed to the finding that lists a shallower (or at most one decade deeper on a same-or-bigger stack) case of the same template, because where the stack runs out depends on the build. A worker that hits the 8 s CPU limit inside one step is reported as SLOW, never as a death.",
   technique="deterministic simulation: host watchdog on a simulated clock + enumerated resource faults (stack size, address-space cap, sizes, nesting depths) in worker processes"),
 "C19": dict(level="exploration", design="§5 C19",
   text="Seeded search over programs (scripts and modules, with/without host-provided imports, host holes with value / error / deferred answers, orders issued in batches through a native and awaited later or never, planted uncaught errors; plus the author-written corpus: 2446 snippets of tests/interpreter and 26 programs of examples/ with their module graphs) each run by five drivers under one collection-injection policy with one fixed host schedule: eval, prepare+step, prepare+step with seeded host activity between steps, C API tsrun_run, C API tsrun_step; observable histories (non-Continue results with payloads, console, final value or first line of the error text, exports) must be identical. Console text includes non-ASCII lines (the C host receives pointer + byte length). A synchronous module text is also run as entry program, as host-provided dependency and as InternalModule::source, referred to by the importing program in four ways (named/default import, re-export list, namespace import, export * as) placed between two exports of its own: same exported values, export names and console; a module body that dies of an uncaught error must report the same error (first line of the display text) in all three roles.",
   note="Trusted: harness hosts (Rust and C side implement the same simplest answer policy). The C API has no provider or GC-threshold entry points, so programs avoid clock/randomness. Continue counts are not compared.",
   technique="deterministic simulation: one fixed host schedule replayed through five driver hosts (incl. C API) and three module roles"),
 "C09": dict(level="exploration", design="§5 C09",
   text="Seeded search over module DAGs (2-8 modules, all import / re-export forms incl. aliased export lists and import-then-export, diamonds, equivalent spellings, live counters read directly, through a namespace and through re-export chains of up to three hops in three spellings) x 6 host delivery schedules per graph (any subset/order per round, early unrequested delivery, duplicate delivery, idle rounds); oracle = independent resolver + closed-form values: canonical unique requests with the right importer, nothing delivered is requested again, termination, each body exactly once after its imports, same result/exports/live bindings under every schedule.",
   note="Trusted: the reference resolver and closed-form model in the harness. Order among independent ready modules is not constrained (partial order only).",
   technique="deterministic simulation: seeded delivery schedules (reorder, batch, early, duplicate, withhold) vs reference module-graph model"),
 "C08": dict(level="exploration", design="§5 C08",
   text="Seeded search over two-party protocol histories: orderDsl programs (<=7 orders; await order, kept results, Promise.all/race over host promises, explicit cancels, batches of orders issued through a native ([..].map(order)) whose markers are awaited later in any order, statements inside async callees with the catch inside the callee, around the awaited call, on the callee's promise awaited later, or as a .catch handler) against a tape-driven simulated host (value / error / plain or order-linked pending promise answers, any settle order and batching, unknown and duplicate ids, idle steps, forced collections). An executable reference model of ledger + promises + combinators runs in lockstep and is compared per Suspended (fresh increasing ids, intact payloads, exactly the issued orders, obligations non-empty: NO Suspended at all with nothing left for the host to do; payloads of all earlier orders, kept by the host, re-read unchanged) and at Complete (log, nothing unanswered, every cancellation event delivered exactly once). Four recorded findings (Promise.any / allSettled over pending host promises, cancellation lost at Complete) are quarantined from the generator and replayed as witnesses.",
   note="Trusted: the reference model (about 300 lines) and the harness host. A Suspended result with no unanswered order and no unsettled host promise is a violation at once. Duplicate answers are only sent for orders the program was blocked on (which of two answers a not-yet-awaited batch order sees is not specified).",
   technique="deterministic simulation: two-party protocol histories with fault injection vs lockstep reference model"),
 "C12": dict(level="exploration", design="§5 C12",
   text="Seeded search over multi-instance scenarios: 2-4 interpreters with their own programs (generated or taken from the author-written corpus; per-instance simulated RegExp engines - default / case-folding / literal - with the same patterns in every instance; console timers/groups/counters, new Function, modules with 2-6 exports importing host-delivered modules, an optional follow-up program on the same interpreter), hosts, clocks and random seeds, scheduled action by action by the simulator in one thread (incl. late creation, early drop, forced collects), after prior lifetimes, and as one OS thread per instance released one action at a time; every instance's full trace (results, console, traffic, steps, exports and their enumeration order) must equal its solo trace. Plus the same seeds in 2 (quick) / 4 (thorough) fresh processes under ASLR with a shifted heap: trace hashes must agree.",
   note="Trusted: harness; per-instance collector schedules use thresholds/forced collects only (the injection seam is per thread). A cross-process hash mismatch is reported with the seed index; it cannot be turned into a single-process replay file by construction.",
   technique="deterministic simulation: seeded instance-interleaving scheduler (one thread and turn-based threads) + process-restart comparison"),
 "C11": dict(level="fault_enumeration", design="§5 C11",
   text="Crash-and-restart histories on one interpreter: victims end by running out, dying of an uncaught (planted) error at arbitrary depth, being abandoned after s steps, or being left suspended (generated victims and author-written corpus snippets); restart = next prepare() / eval() / eval_bytecode(). A slow host delivers answers to the orders of dead runs while the next run waits for its own first order. Quick tier samples crash points; the thorough tier enumerates EVERY step index of victims with T<=400 steps (larger ones sampled). Oracle: a fixed battery and a generated observer behave exactly as on a fresh interpreter (outcome, console, traffic with renumbered order ids, exports), call depth 0, H4 quiescence tuple equal.",
   note="Trusted: harness; victims are generated free of deliberate global effects (block- or module-scoped). Crash-point enumeration is complete per victim only in the thorough tier and only for victims of at most 400 steps; victims themselves are sampled.",
   technique="deterministic simulation: crash-point enumeration (abandon/kill at every step) + restart vs fresh-instance reference"),
 "C14": dict(level="exploration", design="§5 C14",
   text="Conservation check over seeded histories: the same self-contained program run 6-12 times on one interpreter (completing or failing) with a collection after each, and loops inside one run where the simulated host forces a collection at every suspension and records the live-object count; strict growth over the last four observations is a violation. Programs: generated (block-wrapped, or unwrapped with short and >64-byte top-level declarations that every repetition replaces) and the author-written corpus (across runs and as the body of an inside-run loop). Two recorded findings (break/continue and generator scope guards) are quarantined from the inside-run generator and replayed as witnesses.",
   note="Trusted: harness, gc_stats().live_objects. Lazily filled caches that stabilise are not alarmed. Module-mode programs are excluded (module environments are rooted forever by design).",
   technique="deterministic simulation: repeated-run histories with host-forced collections, conservation oracle"),
 "C02": dict(level="exploration", design="§5 C02",
   text="Three strata: (a) generated programs incl. native matrix catalogues 1-3 (callback natives x fresh objects, grouping with fresh keys, several handlers per promise, mutation during iteration), register-only temporaries (multi-cursor loops, swaps, chained assignment), export-default values in entry program and provided dependency, batch orders, host-called resolvers; (b) the author-written corpus (2446 test snippets, 26 example programs with module graphs); (c) sessions: histories of module runs on ONE interpreter in which the host keeps exported values and functions (host-guarded), calls them after later runs, re-runs entry modules, forces collections and allocates. Each (program / session, host tape) x 3-8 collection schedules (thresholds, collections injected at arbitrary allocations through the H2 seam, bursts, host-forced collect() between steps and at suspensions); every perturbed run must reproduce the outcome, console, host traffic and exports of the collection-off run, with an empty stale-dereference log (H1). Sampling, not enumeration.",
   note="Trusted: harness (progGen, simulated host, comparison), hooks H1/H2 (add-only, cfg tsrun_verif). Programs are tsrun-vs-tsrun, so ECMAScript conformance is not assumed.",
   technique="deterministic simulation: seeded GC-schedule injection vs GC-off reference run"),
 "C07": dict(level="exploration", design="§5 C07",
   text="Seeded search over generated programs with host holes at many syntactic positions (incl. orders issued in batches through a native and awaited later, and promises whose resolve function is handed to the host and CALLED by it later) x 3-5 host schedules (immediate / error / deferred-promise answers, settle order and batching from a choice tape, idle steps, eval vs step driver, GC schedule); oracle = the token-identical program with a synchronous stub. Sampling, not enumeration.",
   note="Trusted: harness; the synchronous-stub run as reference (same interpreter, no suspension). Generated programs are sequential in their async structure, so no outcome is legitimately settle-order dependent.",
   technique="deterministic simulation: simulated host with seeded answer schedules vs non-suspending reference"),
 "C13": dict(level="exploration", design="§5 C13",
   text="Seeded search over operation histories of the public Heap/Guard/Gc API (short dense and long strata, heap drop with survivors, stale-handle clone/drop, guard/unguard with stale handles while their slot is free, guard storms and bursts past the guard-storage pool of 16, many-root guards) checked operation by operation against an executable reachability model; the same histories are the workload for the ASan/Miri memory oracle. Sampling, not enumeration.",
   note="Trusted: the harness model (reachability graph, collection detection through the H2 counter), rustc, sanitizer runtimes. Histories never borrow through handles the model knows to be stale; guard/unguard with a stale handle whose slot has a NEW tenant is the recorded finding KF-C13-2/2b (witnesses replayed, case skipped by the generator).",
   technique="deterministic simulation: seeded operation histories vs executable reference model, crash = heap drop with survivors"),
}

PENDING = {}

def main():
    here = os.path.dirname(os.path.dirname(os.path.abspath(__file__)))
    props = [json.loads(l)["id"] for l in open(os.path.join(here, "properties.jsonl"))]
    hooks_commits = []
    try:
        out = subprocess.check_output(["git", "-C", "/repo", "log", "--format=%h %s"], text=True)
        for line in out.splitlines():
            h, s = line.split(" ", 1)
            if s.startswith("verif hook"):
                hooks_commits.append(h)
    except Exception:
        pass
    checks = []
    for pid in props:
        if pid in CHECKS:
            c = CHECKS[pid]
            checks.append({
                "property_id": pid,
                "quick_cmd": f"./check {pid} quick",
                "thorough_cmd": f"./check {pid} thorough",
                "evidence_file": f"/verif/evidence/{pid}.json",
                "replay_cmd_template": "./check replay {path}",
                "engine": "tsim",
                "level_claimed": {"category": c["level"], "text": c["text"], "design_ref": c["design"]},
                "level_note": c["note"],
                "technique": c["technique"],
            })
    na = []
    for pid in props:
        if pid in CHECKS:
            continue
        if pid in NA:
            na.append({"property_id": pid, "reason": "not applicable to deterministic simulation: " + NA[pid]})
        else:
            na.append({"property_id": pid, "reason": PENDING.get(pid, "not claimed in this commit: its simulation check (DESIGN.md §5) is not built yet")})
    m = {
        "version": 1,
        "setup_cmd": "./check build",
        "hooks": {
            "guard": "--cfg tsrun_verif",
            "enable": "RUSTFLAGS='--cfg tsrun_verif' via /verif/sim/.cargo/config.toml (build.rustflags); tsim depends on /repo by path, so every check rebuilds tsrun from the working tree with hooks on",
            "baseline_off_cmd": "cd /repo && cargo nextest run --workspace --no-fail-fast --offline --test-threads 8",
            "source_commits": hooks_commits,
            "add_only": True,
        },
        "engines": [
            {"name": "tsim", "path": "/verif/sim", "serves_properties": sorted(CHECKS.keys()),
             "kind_free_text": "single-process deterministic simulator (Rust): seeded PRNG (VERIF_SEED) decides programs, host schedules, collection points, crash points and fault sequences; executable reference models as oracles; explicit replay files with minimisation"},
        ],
        "checks": checks,
        "not_applicable": na,
        "notes": open(os.path.join(here, "tools", "manifest_notes.txt")).read() if os.path.exists(os.path.join(here, "tools", "manifest_notes.txt")) else "",
    }
    json.dump(m, open(os.path.join(here, "MANIFEST.json"), "w"), indent=1)
    print("wrote MANIFEST.json with", len(checks), "checks,", len(na), "not claimed")

main()
