#!/usr/bin/env python3
"""Build a hand-written replay/witness file for the program-level checks (C02, C07, ...).
usage: mkcase.py <property> <out.json> <clause> <body.ts> '<answers json: {"1": {"Value": 5}}>' [driver]
The body is placed after the standard prelude (hole binding, __log, __show)."""
import json, sys, re
prop, out, clause, body, answers = sys.argv[1:6]
driver = sys.argv[6] if len(sys.argv) > 6 else "Step"
variant = sys.argv[7] if len(sys.argv) > 7 else "Order"
show = re.search(r'pub const SHOW_PRELUDE: &str = r#"(.*?)"#;', open('/verif/sim/src/proggen.rs').read(), re.S).group(1)
prelude = 'import { order } from "tsrun:host";\nconst __h = (k: number): any => order({ k: k });' if variant == "Order" else 'import { order as __h } from "tsrun:host";'
kids = [{"pre": prelude},
        {"pre": "const __log: string[] = [];"}, {"pre": show}]
for line in open(body).read().rstrip("\n").split("\n"):
    kids.append({"pre": line})
case = {"tree": {"pre": "// witness", "kids": kids}, "answers": json.loads(answers), "variant": variant, "module_path": None, "modules": {}, "tags": []}
gc_off = {"threshold": 0, "inject": "None", "force_step_pm": 0, "force_seed": 0, "force_at_suspend": False}
if prop == "C07":
    scn = {"case": case, "schedules": [{"tape": {"v": []}, "gc": gc_off, "driver": driver}], "fuel": 3000000}
elif prop == "C02":
    scn = {"case": case, "driver": driver, "schedules": [dict(gc_off, threshold=1)], "tape": {"v": []}, "fuel": 3000000}
else:
    raise SystemExit("unsupported property")
json.dump({"property": prop, "clause": clause, "observed": "", "seed": 0, "run": 0, "scenario": scn, "detail": {}, "minimised_steps": 0}, open(out, "w"), indent=1)
