#!/usr/bin/env python3
"""Pretty-print a replay file: rendered program source, schedules, detail."""
import json, sys
def render(n, ind=0, out=None):
    out = out if out is not None else []
    out.append("  "*ind + n["pre"])
    for k in n.get("kids", []): render(k, ind+1, out)
    if n.get("post"): out.append("  "*ind + n["post"])
    return out
r = json.load(open(sys.argv[1]))
s = r["scenario"]
case = s.get("case")
if case:
    src = "\n".join(render(case["tree"]))
    # skip the show prelude for brevity
    lines = src.split("\n")
    keep = []
    skip = False
    for l in lines:
        if "function __show" in l: skip = True
        if not skip: keep.append(l)
        if skip and l.strip() == "}": skip = False
    print("\n".join(keep))
    print("// answers:", case.get("answers"), "path:", case.get("module_path"))
for k, v in s.items():
    if k != "case": print("//", k, "=", json.dumps(v)[:600])
print("// clause:", r["clause"])
print("// detail:", json.dumps(r["detail"], indent=1)[:3000])
