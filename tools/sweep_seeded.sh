#!/bin/bash
# tools/sweep_seeded.sh [out-file] — run every stored seeded change against its property's quick check,
# in a scratch worktree of /repo and a scratch copy of the harness (never touches /repo or /verif/sim/target).
OUT=${1:-/tmp/sweep_seeded.txt}
WT=/tmp/wt-sweep
git -C /repo worktree remove --force $WT 2>/dev/null
git -C /repo worktree add -q --detach $WT HEAD || exit 2
: > $OUT
for d in /verif/seeded/*/; do
  id=$(basename $d); prop=${id%%-*}
  git -C $WT checkout -q -- . 
  if ! git -C $WT apply $d/patch.diff 2>/dev/null; then
    if ! git -C $WT apply -3 $d/patch.diff 2>/dev/null; then echo "$id PATCH-DOES-NOT-APPLY" >> $OUT; git -C $WT checkout -q -- .; continue; fi
  fi
  res=$(/verif/tools/with_tree.sh $WT sweep check $prop quick 2>&1 | grep -a "VIOLATION\|^DONE" | head -3 | tr '\n' ' ')
  if echo "$res" | grep -q VIOLATION; then echo "$id CAUGHT $(echo "$res" | grep -o 'replay=[^ ]*' | head -1 | sed 's/.*-//')" >> $OUT; else echo "$id MISSED $res" >> $OUT; fi
done
git -C /repo worktree remove --force $WT
rm -rf /tmp/tsim-alt/sweep
echo FINISHED >> $OUT
