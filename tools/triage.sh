#!/bin/bash
# tools/triage.sh <ID> <runs>  — run without minimisation, cluster failures by clause + short observation
cd /verif/sim && cargo build --release 2>&1 | grep -E "^error" -A12 | head -30
VERIF_TRIAGE=1 VERIF_MAXFAIL=100000 VERIF_RUNS=$2 ./target/release/tsim check $1 quick 2>&1 | grep -a "TRIAGE\|DONE\|HARNESS" > /tmp/triage.txt
python3 - <<'PY'
import re,collections
c=collections.Counter(); ex={}
txt=open('/tmp/triage.txt',errors='replace').read()
for l in txt.split('TRIAGE ')[1:]:
    m=re.match(r'run=(\d+) clause=(\S+) observed=(.*?) detail=(.*)$',l,re.S)
    if not m: continue
    run,clause,obs,det=m.groups()
    obs=re.sub(r'v[a-z]+\d+','VAR',obs)
    obs=re.sub(r'\d+','N',obs)
    key=(clause, obs[:48].replace('\n',' ').split('|')[0])
    c[key]+=1; ex.setdefault(key,[]).append(run)
for k,v in c.most_common(40): print(v,k,ex[k][:8])
print('total failures',sum(c.values()))
PY
tail -1 /tmp/triage.txt
