#!/bin/bash
# tools/try_mutation.sh <patch.diff> <ID> [tier] — apply a seeded change to /repo, run one check, undo it.
set -u
PATCH=$1; ID=$2; TIER=${3:-quick}
cd /repo || exit 2
if ! git diff --quiet; then echo "repo dirty" >&2; exit 2; fi
if ! git apply --check "$PATCH" 2>/dev/null; then echo "PATCH DOES NOT APPLY" ; exit 3; fi
git apply "$PATCH"
cd /verif && ./check "$ID" "$TIER" 2>&1 | grep -a "VIOLATION\|DONE\|HARNESS\|KNOWN" | head -12
RC=${PIPESTATUS[0]}
git -C /repo checkout -- . 
echo "exit=$RC"
