#!/bin/bash
# tools/try_mutation_wt.sh <patch.diff> <ID> [tier] — like try_mutation.sh but in a scratch worktree and a scratch
# copy of the harness (native build only): /repo and /verif/sim/target are not touched, so it can run while
# other checks run against /repo.
PATCH=$1; ID=$2; TIER=${3:-quick}
WT=/tmp/wt-try
[ -d $WT ] || git -C /repo worktree add -q --detach $WT HEAD || exit 2
git -C $WT checkout -q --detach $(git -C /repo rev-parse HEAD) 2>/dev/null
git -C $WT checkout -q -- .
if ! git -C $WT apply "$PATCH" 2>/dev/null; then echo "PATCH DOES NOT APPLY"; exit 3; fi
/verif/tools/with_tree.sh $WT try check $ID $TIER 2>&1 | grep -a "VIOLATION\|^DONE\|HARNESS" | head -6
git -C $WT checkout -q -- .
