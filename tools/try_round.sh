#!/bin/bash
# tools/try_round.sh <dir-with-<ID>/out<k>/patch.diff> [tier] [ID ...] — try every mutation of a round against its property's check
ROOT=$1; TIER=${2:-quick}; shift 2
IDS=${@:-C02 C06 C07 C08 C09 C11 C12 C13 C14 C17 C19}
for p in $IDS; do for k in 1 2; do
  f=$ROOT/$p/out$k/patch.diff
  [ -f $f ] || continue
  echo "=== $p out$k"
  /verif/tools/try_mutation.sh $f $p $TIER 2>&1 | tail -6
done; done
