#!/bin/bash
# tools/with_tree.sh <repo-tree> <name> <tsim args...>
# Build tsim against another source tree of tsrun (scratch worktree, patched copy) in its own
# target dir under /tmp/tsim-alt/<name>, and run it with a scratch VERIF_DIR so that /verif's
# evidence and replays are not touched. Used for sensitivity experiments only; never by checks.
set -eu
TREE=$(cd "$1" && pwd); NAME="$2"; shift 2
ALT=/tmp/tsim-alt/$NAME
mkdir -p "$ALT/sim" "$ALT/verif"
rsync -a --delete --exclude 'target*' --exclude '.build-hash*' /verif/sim/ "$ALT/sim/"
sed -i "s#path = \"/repo\"#path = \"$TREE\"#" "$ALT/sim/Cargo.toml"
rsync -a --delete /verif/findings "$ALT/verif/" 2>/dev/null || true
cp /verif/known_findings.json "$ALT/verif/" 2>/dev/null || true
(cd "$ALT/sim" && CARGO_NET_OFFLINE=true cargo build --release --target-dir "$ALT/target" 2>&1 | grep -E "^(error|warning: unused)" -A8 | head -40 || true)
cd "$ALT/verif"
VERIF_DIR="$ALT/verif" "$ALT/target/release/tsim" "$@"
